//kse:pkg lib/torrent/scheduler/dispatch/piecerequest
package piecerequest

import (
	"time"

	"github.com/andres-erbsen/clock"
	"github.com/uber/kraken/core"
	"github.com/uber/kraken/utils/syncutil"
	verif "github.com/uber/kraken/zzverif"
	"github.com/willf/bitset"
)

const (
	verifNPeers  = 2
	verifMaxTime = int64(1) << 40
)

func verifPeer(i int) core.PeerID {
	var p core.PeerID
	p[0] = byte(i + 1)
	p[19] = byte(0xB0 + i)
	return p
}

func verifPeerIndex(p core.PeerID) int {
	for i := 0; i < verifNPeers; i++ {
		if p == verifPeer(i) {
			return i
		}
	}
	return -1
}

// verifGhostReq is one request of the reference model.
type verifGhostReq struct {
	piece, peer int
	sentNs      int64 // ghost clock reading when reserved (symbolic)
	mark        int   // 0 pending, StatusUnsent or StatusInvalid once marked (may be symbolic)
	alive       bool  // false once cleared (Clear / ClearPeer)
}

type verifEnv struct {
	m        *Manager
	clk      *clock.Mock
	nowNs    int64
	timeout  int64
	limit    [verifNPeers]int // peer 0 is an agent, peer 1 an origin
	npieces  int
	counters syncutil.Counters
	reqs     []*verifGhostReq
	endgame  bool // some reserve allowed duplicates
	// removed[p]: ClearPeer(p) happened and p has not reserved since.
	removed [verifNPeers]bool
}

func verifNewEnv(policy string, npieces int) *verifEnv {
	e := &verifEnv{npieces: npieces}
	e.clk = clock.NewMock()
	e.timeout = verif.Int64("timeout_ns")
	verif.Assume(verif.And(e.timeout >= 1, e.timeout <= verifMaxTime))
	for p := 0; p < verifNPeers; p++ {
		e.limit[p] = verif.IntRange("pipeline_limit", 1, npieces)
	}
	m, err := NewManager(e.clk, time.Duration(e.timeout), policy, e.limit[0], e.limit[1])
	verif.Assert("new-manager", err == nil)
	e.m = m
	e.counters = syncutil.NewCounters(npieces)
	if policy == RarestFirstPolicy {
		for i := 0; i < npieces; i++ {
			e.counters.Set(i, verif.IntRange("num_peers_by_piece", 0, verif.Bound("availability_max", 1, 2)))
		}
	}
	return e
}

func (e *verifEnv) expired(r *verifGhostReq) bool {
	// the model of "expired": strictly more than timeout after it was sent
	return e.nowNs > r.sentNs+e.timeout
}

// unexpiredPending: the request still counts as outstanding.
func (e *verifEnv) unexpiredPending(r *verifGhostReq) bool {
	return verif.And(r.alive, r.mark == int(StatusPending), !e.expired(r))
}

func (e *verifEnv) failed(r *verifGhostReq) bool {
	return verif.And(r.alive, verif.Or(r.mark != int(StatusPending), e.expired(r)))
}

func (e *verifEnv) advance() {
	dt := verif.Int64("dt_ns")
	verif.Assume(verif.And(dt >= 0, dt <= verifMaxTime))
	e.clk.Add(time.Duration(dt))
	e.nowNs += dt
}

func (e *verifEnv) liveCount(peer, piece int) int {
	n := 0
	for _, r := range e.reqs {
		if r.alive && r.peer == peer && r.piece == piece {
			n++
		}
	}
	return n
}

// reserve calls ReservePieces and checks the result against the ghost.
func (e *verifEnv) reserve(peer int, candBits int, allowDup bool) {
	cands := bitset.New(uint(e.npieces))
	for i := 0; i < e.npieces; i++ {
		if candBits&(1<<uint(i)) != 0 {
			cands.Set(uint(i))
		}
	}
	// outstanding before the call, per ghost
	before := 0
	for _, r := range e.reqs {
		if r.peer == peer {
			before += verif.Ite(e.unexpiredPending(r), 1, 0)
		}
	}
	pieces, err := e.m.ReservePieces(verifPeer(peer), peer == 1, cands, e.counters, allowDup)
	verif.Assert("reserve-no-error", err == nil)
	if allowDup {
		e.endgame = true
	}
	verif.Cover("reserved-some", len(pieces) > 0)
	verif.Assert("reserve-within-pipeline-limit", before+len(pieces) <= e.limit[peer])
	var seen [8]bool
	for _, i := range pieces {
		verif.Assert("reserved-piece-is-candidate", i >= 0 && i < e.npieces && candBits&(1<<uint(i)) != 0)
		verif.Assert("reserved-piece-once-per-call", !seen[i])
		seen[i] = true
		for _, r := range e.reqs {
			if r.piece != i {
				continue
			}
			if r.peer == peer {
				verif.Assert("no-second-outstanding-request-to-same-peer", !e.unexpiredPending(r))
			} else if !allowDup {
				verif.Assert("no-duplicate-outstanding-request-outside-endgame", !e.unexpiredPending(r))
			}
		}
	}
	for _, i := range pieces {
		e.reqs = append(e.reqs, &verifGhostReq{piece: i, peer: peer, sentNs: e.nowNs, mark: int(StatusPending), alive: true})
	}
	if len(pieces) > 0 {
		e.removed[peer] = false
	}
}

func (e *verifEnv) mark(peer, piece int, st Status) {
	if st == StatusUnsent {
		e.m.MarkUnsent(verifPeer(peer), piece)
	} else {
		e.m.MarkInvalid(verifPeer(peer), piece)
	}
	for _, r := range e.reqs {
		if r.alive && r.peer == peer && r.piece == piece {
			r.mark = int(st)
		}
	}
}

func (e *verifEnv) clear(piece int) {
	e.m.Clear(piece)
	for _, r := range e.reqs {
		if r.piece == piece {
			r.alive = false
		}
	}
	for p := 0; p < verifNPeers; p++ {
		for _, i := range e.m.PendingPieces(verifPeer(p)) {
			verif.Assert("cleared-piece-not-pending", i != piece)
		}
	}
	for _, f := range e.m.GetFailedRequests() {
		verif.Assert("cleared-piece-not-failed", f.Piece != piece)
	}
}

func (e *verifEnv) clearPeer(peer int) {
	e.m.ClearPeer(verifPeer(peer))
	for _, r := range e.reqs {
		if r.peer == peer {
			r.alive = false
		}
	}
	e.removed[peer] = true
}

// checkAll states the property on the current state. Conditions over
// symbolic times are conjoined into few assertions (one solver query each).
func (e *verifEnv) checkAll() {
	// 1. pipeline limit per peer over unexpired pending requests.
	limitsOK := true
	for p := 0; p < verifNPeers; p++ {
		n := 0
		for _, r := range e.reqs {
			if r.peer == p {
				n += verif.Ite(e.unexpiredPending(r), 1, 0)
			}
		}
		limitsOK = verif.And(limitsOK, n <= e.limit[p])
	}
	verif.Assert("outstanding-within-pipeline-limit", limitsOK)
	// 2. outside endgame: at most one unexpired outstanding request per piece.
	if !e.endgame {
		oneOK := true
		for i := 0; i < e.npieces; i++ {
			n := 0
			for _, r := range e.reqs {
				if r.piece == i {
					n += verif.Ite(e.unexpiredPending(r), 1, 0)
				}
			}
			oneOK = verif.And(oneOK, n <= 1)
		}
		verif.Assert("one-outstanding-request-per-piece-outside-endgame", oneOK)
	}
	// 3. pending report: only pieces for which the peer has a live request that
	// was not marked; nothing for a removed peer.
	for p := 0; p < verifNPeers; p++ {
		pend := e.m.PendingPieces(verifPeer(p))
		if e.removed[p] {
			verif.Assert("removed-peer-has-no-pending", len(pend) == 0)
		}
		for _, i := range pend {
			ok := false
			for _, r := range e.reqs {
				if r.alive && r.peer == p && r.piece == i {
					ok = verif.Or(ok, r.mark == int(StatusPending))
				}
			}
			verif.Assert("pending-report-has-live-request", ok)
		}
	}
	// 4. failed report == ghost failed multiset, per (peer, piece).
	failed := e.m.GetFailedRequests()
	var cnt [verifNPeers][8]int
	statusOK := true
	for _, f := range failed {
		p := verifPeerIndex(f.PeerID)
		verif.Assert("failed-report-known-peer", p >= 0)
		verif.Assert("failed-report-known-piece", f.Piece >= 0 && f.Piece < e.npieces)
		verif.Assert("removed-peer-has-no-failed", !e.removed[p])
		statusOK = verif.And(statusOK, verif.Or(f.Status == StatusExpired, f.Status == StatusUnsent, f.Status == StatusInvalid))
		cnt[p][f.Piece]++
		// exact status, where the model has exactly one candidate
		if e.liveCount(p, f.Piece) == 1 {
			for _, r := range e.reqs {
				if r.alive && r.peer == p && r.piece == f.Piece {
					want := verif.Ite(r.mark != int(StatusPending), r.mark, int(StatusExpired))
					statusOK = verif.And(statusOK, int(f.Status) == want)
				}
			}
		}
	}
	verif.Assert("failed-report-status", statusOK)
	verif.Cover("some-failed", len(failed) > 0)
	exact := true
	for p := 0; p < verifNPeers; p++ {
		for i := 0; i < e.npieces; i++ {
			n := 0
			for _, r := range e.reqs {
				if r.peer == p && r.piece == i {
					n += verif.Ite(e.failed(r), 1, 0)
				}
			}
			exact = verif.And(exact, cnt[p][i] == n)
		}
	}
	verif.Assert("failed-report-lists-exactly-failed-requests", exact)
}

// step: symbolic clock advance, then one symbolic operation.
func (e *verifEnv) step() {
	e.advance()
	nsub := (1 << uint(e.npieces)) - 1 // non-empty candidate sets
	nReserve := verifNPeers * nsub
	nMark := verifNPeers * e.npieces
	c := verif.Choice("op", nReserve+nMark+e.npieces+verifNPeers)
	switch {
	case c < nReserve:
		e.reserve(c/nsub, c%nsub+1, verif.Bool("endgame"))
	case c < nReserve+nMark:
		c -= nReserve
		st := StatusUnsent
		if verif.Bool("invalid") {
			st = StatusInvalid
		}
		e.mark(c/e.npieces, c%e.npieces, st)
	case c < nReserve+nMark+e.npieces:
		e.clear(c - nReserve - nMark)
	default:
		p := c - nReserve - nMark - e.npieces
		e.clearPeer(p)
	}
}

func verifHistory(policy string) {
	verif.Note("draws of math/rand.Intn in the default policy are unknowns; native replay cannot force them")
	e := verifNewEnv(policy, verif.Bound("pieces", 2, 3))
	k := verif.Bound("steps", 2, 4)
	for i := 0; i < k; i++ {
		e.step()
		e.checkAll()
	}
	// let any amount of time pass at the end
	if verif.Bound("final_advance", 0, 1) == 1 {
		e.advance()
		e.checkAll()
	}
}

// VerifManagerHistoryDefault: histories under the default (random) policy.
func VerifManagerHistoryDefault() { verifHistory(DefaultPolicy) }

// VerifManagerHistoryRarestFirst: histories under the rarest-first policy with
// symbolic piece availability counters.
func VerifManagerHistoryRarestFirst() { verifHistory(RarestFirstPolicy) }

// VerifManagerFindingClearPeer: reserve, let time pass, reserve again for the
// same peer, remove the peer, let time pass: nothing of the peer may be
// reported. Regression check for the defect of FINDINGS.md (fixed upstream in
// /repo by "piecerequest ClearPeer removes every request of the peer").
func VerifManagerFindingClearPeer() {
	e := verifNewEnv(DefaultPolicy, 2)
	e.reserve(1, 2, false) // another peer's request, stays until it expires
	e.reserve(0, 1, false)
	e.advance()
	e.reserve(0, 1, false)
	e.advance()
	e.clearPeer(0)
	e.advance()
	e.checkAll()
}
