//kse:pkg lib/torrent/scheduler/dispatch/piecerequest
package piecerequest

import (
	"time"

	"github.com/uber/kraken/core"
	verif "github.com/uber/kraken/zzverif"
)

// White-box harness file for C15: builds Manager.requests / requestsByPeer
// directly (arbitrary pre-state satisfying the representation invariant) and
// re-checks the invariant after one step. Uses the environment, the step and
// the property check of manager.go; manager.go does not depend on this file.
//
// Representation invariant Inv (over 2 peers, 2 pieces, <= 2 requests per piece
// in the pre-state):
//   I1  requestsByPeer[p][i] exists iff requests[i] holds a request of p, and is
//       the LAST such request of requests[i]; every r in requests[i] has Piece i.
//   I2  requests[i] is in sending order (sentAt non-decreasing, none in the
//       future).
//   I3  of two requests of the same peer in requests[i] the earlier one is
//       dead: marked unsent/invalid, or expired before the later one was sent.
//   I4  per peer at most pipeline-limit requests are pending and unexpired.
//   I5  (only while no reserve allowed duplicates) per piece at most one
//       request is pending and unexpired.
// New() satisfies Inv; the harness shows Inv && step => property && Inv.

func wbStatus(name string) Status {
	k := verif.IntRange(name, 0, 2) // 0 pending, 1 -> unsent(2), 2 -> invalid(3)
	return Status(k + verif.Ite(k > 0, 1, 0))
}

// wbCheckInv checks I1-I3 on the real representation (I4/I5 are the property
// itself, asserted by checkAll through the ghost).
func wbCheckInv(e *verifEnv) {
	ok := true
	for i, rs := range e.m.requests {
		var last [verifNPeers]*Request
		var prev *Request
		for _, r := range rs {
			verif.Assert("inv-request-filed-under-its-piece", r.Piece == i)
			p := verifPeerIndex(r.PeerID)
			verif.Assert("inv-known-peer", p >= 0)
			if prev != nil {
				ok = verif.And(ok, !r.sentAt.Before(prev.sentAt))
			}
			if last[p] != nil {
				dead := verif.Or(last[p].Status != StatusPending, last[p].sentAt.Add(e.m.timeout).Before(r.sentAt))
				ok = verif.And(ok, dead)
			}
			ok = verif.And(ok, !r.sentAt.After(e.clk.Now()))
			last[p] = r
			prev = r
		}
		for p := 0; p < verifNPeers; p++ {
			got, has := e.m.requestsByPeer[verifPeer(p)][i]
			verif.Assert("inv-peer-index-points-to-last-request", has == (last[p] != nil) && (!has || got == last[p]))
		}
	}
	for pid, pm := range e.m.requestsByPeer {
		verif.Assert("inv-no-empty-peer-index-after-clear", verifPeerIndex(pid) >= 0)
		for i, r := range pm {
			found := false
			for _, x := range e.m.requests[i] {
				if x == r {
					found = true
				}
			}
			verif.Assert("inv-peer-index-entry-is-in-piece-list", found)
		}
	}
	verif.Assert("inv-sending-order-and-dead-predecessors", ok)
}

// VerifManagerStepInductive: one step (clock advance + any operation) from
// every pre-state satisfying Inv.
func VerifManagerStepInductive() {
	verif.Note("inductive step over 2 peers, 2 pieces, <= 2 requests per piece in the pre-state; default policy")
	e := verifNewEnv(DefaultPolicy, 2)
	e.advance() // symbolic current time
	type slot struct {
		peer int
		g    *verifGhostReq
	}
	epoch := time.Unix(0, 0)
	inv := true
	for i := 0; i < e.npieces; i++ {
		maxReq := 2
		if i > 0 {
			maxReq = verif.Bound("inductive_requests_second_piece", 0, 2)
		}
		n := verif.Len("requests_for_piece", 0, maxReq)
		var prevSent int64
		var slots []slot
		for j := 0; j < n; j++ {
			p := verif.Choice("peer", verifNPeers)
			sent := verif.Int64("sent_ns")
			st := wbStatus("status")
			inv = verif.And(inv, sent >= prevSent, sent <= e.nowNs) // I2
			prevSent = sent
			r := &Request{Piece: i, PeerID: verifPeer(p), Status: st, sentAt: epoch.Add(time.Duration(sent))}
			e.m.requests[i] = append(e.m.requests[i], r)
			if e.m.requestsByPeer[verifPeer(p)] == nil {
				e.m.requestsByPeer[verifPeer(p)] = make(map[int]*Request)
			}
			e.m.requestsByPeer[verifPeer(p)][i] = r // the last one wins: I1
			g := &verifGhostReq{piece: i, peer: p, sentNs: sent, mark: int(st), alive: true}
			for _, s := range slots {
				if s.peer == p { // I3
					inv = verif.And(inv, verif.Or(s.g.mark != int(StatusPending), s.g.sentNs+e.timeout < sent))
				}
			}
			slots = append(slots, slot{p, g})
			e.reqs = append(e.reqs, g)
		}
	}
	for p := 0; p < verifNPeers; p++ { // I4
		c := 0
		for _, g := range e.reqs {
			if g.peer == p {
				c += verif.Ite(e.unexpiredPending(g), 1, 0)
			}
		}
		inv = verif.And(inv, c <= e.limit[p])
	}
	e.endgame = verif.Bool("endgame_used_before")
	if !e.endgame { // I5
		for i := 0; i < e.npieces; i++ {
			c := 0
			for _, g := range e.reqs {
				if g.piece == i {
					c += verif.Ite(e.unexpiredPending(g), 1, 0)
				}
			}
			inv = verif.And(inv, c <= 1)
		}
	}
	verif.Assume(inv)
	wbCheckInv(e) // the construction really satisfies I1-I3
	verif.Cover("pre-two-requests-of-one-peer-for-one-piece", len(e.reqs) >= 2 && e.reqs[0].piece == e.reqs[1].piece && e.reqs[0].peer == e.reqs[1].peer)
	e.step()
	e.checkAll()
	wbCheckInv(e)
}

var _ = core.PeerID{}
