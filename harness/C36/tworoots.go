//kse:pkg lib/backend/namepath
package namepath

import (
	verif "github.com/uber/kraken/zzverif"
)

// Two pathers of the same scheme scoped to DIFFERENT roots in one process (a
// shadow backend writing to an old and a new root, two namespaces mapped to
// different directories, the same directory configured with and without a
// trailing slash). The statement quantifies over every root a deployment may
// configure; a deployment configures several at once, so every pather must
// round-trip whatever another pather of the scheme did before it. API level
// only (New + the Pather interface).

// verifTwoRoots: one root from the symbolic root grammar ("/", or one
// component of 1..2 unknown bytes, with/without trailing slash) and one from
// the concrete list, in either order. The two may coincide as strings for some
// values of the unknown bytes; that is allowed (nothing to distinguish then).
func verifTwoRoots() (string, string) {
	sym := verifRoot(1)
	conc := verifConcreteRoots[verif.Choice("other_root", verif.Bound("other_roots", 3, len(verifConcreteRoots)))]
	if verif.Choice("symbolic_root_first", 2) == 1 {
		return sym, conc
	}
	return conc, sym
}

func verifRoundTrip(label string, p Pather, name string) {
	bp, err := p.BlobPath(name)
	verif.Assert(label+"-blobpath-ok", err == nil)
	got, err := p.NameFromBlobPath(bp)
	verif.Assert(label+"-namefrompath-ok", err == nil)
	verif.Assert(label+"-round-trip", got == name)
}

func verifTwoPathers(id string, name1, name2 string) {
	r1, r2 := verifTwoRoots()
	verif.Cover("roots-differ", r1 != r2)
	p1, err := New(r1, id)
	verif.Assert("new-first-ok", err == nil)
	p2, err := New(r2, id)
	verif.Assert("new-second-ok", err == nil)
	// first pather converts, then the second one, then (thorough tier) the
	// first one again.
	verifRoundTrip("first", p1, name1)
	verifRoundTrip("second", p2, name2)
	if verif.Bound("convert_first_again", 0, 1) == 1 {
		verifRoundTrip("first-again", p1, name2)
	}
}

// VerifDockerTagTwoRoots: two DockerTagPathers with different roots alive in
// one process, used one after the other (both orders of the root pair).
func VerifDockerTagTwoRoots() {
	b := verif.Bytes("name", 4)
	for j := range b {
		verif.Assume(verifAlnum(b[j]))
	}
	verifTwoPathers(DockerTag, string(b[:1])+":"+string(b[1:2]), string(b[2:3])+":"+string(b[3:]))
}

// VerifShardedBlobTwoRoots: the same for ShardedDockerBlobPather.
func VerifShardedBlobTwoRoots() {
	verifTwoPathers(ShardedDockerBlob, verifHexName(4, 4), verifHexName(3, 3))
}
