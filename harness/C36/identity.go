//kse:pkg lib/backend/namepath
package namepath

import (
	verif "github.com/uber/kraken/zzverif"
)

// verifRootChar: a byte of the alphabet roots are drawn from: [a-z0-9._-].
func verifRootChar(c byte) bool {
	return verif.Or(verif.And(c >= 'a', c <= 'z'), verif.And(c >= '0', c <= '9'), c == '.', c == '_', c == '-')
}

func verifAlnum(c byte) bool {
	return verif.Or(verif.And(c >= 'a', c <= 'z'), verif.And(c >= '0', c <= '9'))
}

// verifRootNoSlash builds an absolute root of 1..maxComp components of 1..2
// symbolic bytes each from [a-z0-9._-] (no "." / ".." components), without a
// trailing slash.
func verifRootNoSlash(maxComp int) string {
	n := verif.Len("root_comps", 1, maxComp)
	root := ""
	for i := 0; i < n; i++ {
		l := verif.Len("root_comp_len", 1, 2)
		b := verif.Bytes("root_comp", l)
		for j := range b {
			verif.Assume(verifRootChar(b[j]))
		}
		// "." and ".." are not directory names a deployment configures.
		verif.Assume(b[0] != '.')
		root += "/" + string(b)
	}
	return root
}

// VerifIdentityRoundTrip: IdentityPather with a root that has no trailing slash
// (the shape the unit tests use) round-trips every clean relative name.
func VerifIdentityRoundTrip() {
	root := verifRootNoSlash(verif.Bound("root_comps", 2, 3))
	verifIdentityCheck(root)
}

func verifIdentityName() string {
	// name: 1..2 components of 1..2 bytes from the root alphabet joined by '/'.
	n := verif.Len("name_comps", 1, 2)
	name := ""
	for i := 0; i < n; i++ {
		l := verif.Len("name_comp_len", 1, 2)
		b := verif.Bytes("name_comp", l)
		for j := range b {
			verif.Assume(verifRootChar(b[j]))
		}
		verif.Assume(b[0] != '.')
		if i > 0 {
			name += "/"
		}
		name += string(b)
	}
	return name
}

func verifIdentityCheck(root string) {
	p, err := New(root, Identity)
	verif.Assert("new-ok", err == nil)
	name := verifIdentityName()
	bp, err := p.BlobPath(name)
	verif.Assert("blobpath-ok", err == nil)
	got, err := p.NameFromBlobPath(bp)
	verif.Assert("namefrompath-ok", err == nil)
	verif.Assert("round-trip", got == name)
}

// VerifFindingIdentityTrailingSlashRoot: same with a trailing slash on the root
// or the filesystem root itself (FINDINGS.md F1, fixed in /repo commit aa13958;
// kept under this name as the regression check of that fix).
func VerifFindingIdentityTrailingSlashRoot() {
	var root string
	if verif.Choice("fs_root", 2) == 1 {
		root = "/"
	} else {
		root = verifRootNoSlash(2) + "/"
	}
	verifIdentityCheck(root)
}
