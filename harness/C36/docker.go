//kse:pkg lib/backend/namepath
package namepath

import (
	verif "github.com/uber/kraken/zzverif"
)

var verifKeywords = []string{"repositories", "docker", "registry", "v2", "blobs", "sha256", "tags", "current", "link", "data"}

// verifRoot: "/", or 1..maxComp components of 1..2 unknown bytes from
// [a-z0-9._-] (the regexp metacharacter '.' included), with or without a
// trailing slash.
func verifRoot(maxComp int) string {
	shape := verif.Choice("root_shape", 3)
	if shape == 0 {
		return "/"
	}
	root := verifRootNoSlash(maxComp)
	if shape == 2 {
		root += "/"
	}
	return root
}

// verifRepoComponent: a Docker path component: a layout keyword or 1..maxLen
// symbolic bytes matching [a-z0-9]+(?:[._-][a-z0-9]+)* (with <=2 bytes that is
// alphanumerics only).
func verifRepoComponent(maxLen int) string {
	k := verif.Choice("repo_comp_kind", 1+maxLen)
	if k == 0 {
		return verifKeywords[verif.Choice("repo_keyword", verif.Bound("repo_keywords", 4, 5))]
	}
	b := verif.Bytes("repo_comp", k)
	for j := range b {
		verif.Assume(verifAlnum(b[j]))
	}
	return string(b)
}

func verifRepo(maxComp, maxLen int) string {
	n := verif.Len("repo_comps", 1, maxComp)
	repo := ""
	for i := 0; i < n; i++ {
		if i > 0 {
			repo += "/"
		}
		repo += verifRepoComponent(maxLen)
	}
	return repo
}

var verifTagKeywords = []string{"current", "link", "tags", "_manifests", "_layers", "_uploads"}

// verifTag: [A-Za-z0-9_][A-Za-z0-9_.-]*: one of a few tags that coincide with
// layout directory names, or minLen..maxLen symbolic bytes.
func verifTag(minLen, maxLen int) string {
	if verif.Choice("tag_kind", 2) == 0 {
		return verifTagKeywords[verif.Choice("tag_keyword", verif.Bound("tag_keywords", 2, len(verifTagKeywords)))]
	}
	l := verif.Len("tag_len", minLen, maxLen)
	b := verif.Bytes("tag", l)
	for j := range b {
		c := b[j]
		word := verif.Or(verifAlnum(c), verif.And(c >= 'A', c <= 'Z'), c == '_')
		if j == 0 {
			verif.Assume(word)
		} else {
			verif.Assume(verif.Or(word, c == '.', c == '-'))
		}
	}
	return string(b)
}

var verifConcreteRoots = []string{"/", "/r.", "/r./", "/ab", "/ab/", "/a-/b_", "/a.b/c/"}

// verifNameRoot: the root for the harnesses whose weight is on the name
// grammar: one of a few concrete roots (the filesystem root, with and without
// trailing slash, with the metacharacter '.'), so that the pattern handed to
// regexp is concrete. The symbolic root grammar is covered by the …Roots
// harnesses.
func verifNameRoot() string {
	return verifConcreteRoots[verif.Choice("root", verif.Bound("concrete_roots", 5, 5))]
}

func verifDockerTagCheck(root, repo, tag string) {
	p, err := New(root, DockerTag)
	verif.Assert("new-ok", err == nil)
	name := repo + ":" + tag
	bp, err := p.BlobPath(name)
	verif.Assert("blobpath-ok", err == nil)
	got, err := p.NameFromBlobPath(bp)
	verif.Assert("namefrompath-ok", err == nil)
	verif.Assert("round-trip", got == name)
}

// VerifDockerTagRoundTrip: DockerTagPather, repo:tag names from the grammar.
func VerifDockerTagRoundTrip() {
	root := verifNameRoot()
	repo := verifRepo(verif.Bound("repo_comps", 2, 3), verif.Bound("repo_comp_len", 1, 2))
	tag := verifTag(verif.Bound("tag_min", 2, 1), verif.Bound("tag_max", 2, 3))
	verifDockerTagCheck(root, repo, tag)
}

// VerifDockerTagRoots: DockerTagPather, every root of the symbolic root
// grammar, short names.
func VerifDockerTagRoots() {
	root := verifRoot(verif.Bound("root_comps", 1, 2))
	b := verif.Bytes("name", 2)
	verif.Assume(verifAlnum(b[0]))
	verif.Assume(verifAlnum(b[1]))
	verifDockerTagCheck(root, string(b[:1]), string(b[1:]))
}

func verifHexName(minLen, maxLen int) string {
	l := verif.Len("hex_len", minLen, maxLen)
	b := verif.Bytes("hex", l)
	for j := range b {
		verif.Assume(verif.Or(verif.And(b[j] >= '0', b[j] <= '9'), verif.And(b[j] >= 'a', b[j] <= 'f')))
	}
	return string(b)
}

func verifShardedCheck(root, name string) {
	p, err := New(root, ShardedDockerBlob)
	verif.Assert("new-ok", err == nil)
	bp, err := p.BlobPath(name)
	verif.Assert("blobpath-ok", err == nil)
	got, err := p.NameFromBlobPath(bp)
	verif.Assert("namefrompath-ok", err == nil)
	verif.Assert("round-trip", got == name)
}

// VerifShardedBlobRoundTrip: ShardedDockerBlobPather, hex names of 3..8 digits
// (3 is the shortest name BlobPath accepts).
func VerifShardedBlobRoundTrip() {
	verifShardedCheck(verifNameRoot(), verifHexName(3, verif.Bound("hex_len", 6, 8)))
}

// VerifShardedBlobRoots: every root of the symbolic root grammar.
func VerifShardedBlobRoots() {
	verifShardedCheck(verifRoot(verif.Bound("root_comps", 1, 2)), verifHexName(4, 4))
}
