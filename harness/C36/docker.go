//kse:pkg lib/backend/namepath
package namepath

import (
	verif "github.com/uber/kraken/zzverif"
)

var verifKeywords = []string{"docker", "registry", "v2", "repositories", "blobs", "sha256", "tags", "current", "link", "data"}

// verifRoot: "/" or 1..maxComp components, optional trailing slash.
func verifRoot(maxComp int) string {
	switch verif.Choice("root_shape", 3) {
	case 0:
		return "/"
	case 1:
		return verifRootNoSlash(maxComp)
	}
	return verifRootNoSlash(maxComp) + "/"
}

// verifRepoComponent: a Docker path component: a layout keyword or 1..2
// symbolic bytes matching [a-z0-9]+(?:[._-][a-z0-9]+)* (so with <=2 bytes:
// alphanumerics only).
func verifRepoComponent() string {
	k := verif.Choice("repo_comp_kind", 3)
	switch k {
	case 0:
		return verifKeywords[verif.Choice("repo_keyword", len(verifKeywords))]
	}
	b := verif.Bytes("repo_comp", k)
	for j := range b {
		verif.Assume(verifAlnum(b[j]))
	}
	return string(b)
}

func verifRepo(maxComp int) string {
	n := verif.Len("repo_comps", 1, maxComp)
	repo := ""
	for i := 0; i < n; i++ {
		if i > 0 {
			repo += "/"
		}
		repo += verifRepoComponent()
	}
	return repo
}

// verifTag: [A-Za-z0-9_][A-Za-z0-9_.-]{0,2}
func verifTag(maxLen int) string {
	l := verif.Len("tag_len", 1, maxLen)
	b := verif.Bytes("tag", l)
	for j := range b {
		c := b[j]
		word := verif.Or(verifAlnum(c), verif.And(c >= 'A', c <= 'Z'), c == '_')
		if j == 0 {
			verif.Assume(word)
		} else {
			verif.Assume(verif.Or(word, c == '.', c == '-'))
		}
	}
	return string(b)
}

// VerifDockerTagRoundTrip
func VerifDockerTagRoundTrip() {
	root := verifRoot(verif.Bound("root_comps", 1, 2))
	p, err := New(root, DockerTag)
	verif.Assert("new-ok", err == nil)
	repo := verifRepo(verif.Bound("repo_comps", 2, 3))
	tag := verifTag(verif.Bound("tag_len", 2, 3))
	name := repo + ":" + tag
	bp, err := p.BlobPath(name)
	verif.Assert("blobpath-ok", err == nil)
	got, err := p.NameFromBlobPath(bp)
	verif.Assert("namefrompath-ok", err == nil)
	verif.Assert("round-trip", got == name)
}

// VerifShardedBlobRoundTrip
func VerifShardedBlobRoundTrip() {
	root := verifRoot(verif.Bound("root_comps", 1, 2))
	p, err := New(root, ShardedDockerBlob)
	verif.Assert("new-ok", err == nil)
	l := verif.Len("hex_len", 4, verif.Bound("hex_len", 6, 8))
	b := verif.Bytes("hex", l)
	for j := range b {
		verif.Assume(verif.Or(verif.And(b[j] >= '0', b[j] <= '9'), verif.And(b[j] >= 'a', b[j] <= 'f')))
	}
	name := string(b)
	bp, err := p.BlobPath(name)
	verif.Assert("blobpath-ok", err == nil)
	got, err := p.NameFromBlobPath(bp)
	verif.Assert("namefrompath-ok", err == nil)
	verif.Assert("round-trip", got == name)
}
