//kse:pkg utils/httputil
package httputil

// Go models of the net/http boundary used by Send (see kse/model_gomodel.go):
// under the engine, net/http.NewRequestWithContext and (*http.Client).Do are
// replaced by the two functions below; natively the real net/http runs.

import (
	"bytes"
	"context"
	"errors"
	"io"
	"net/http"
	"net/url"
	"strings"
)

// VerifModelHTTPNewRequestWithContext follows net/http.NewRequestWithContext
// (request.go): parse the URL, wrap the body, and for the three standard
// in-memory readers record ContentLength and a GetBody snapshot. Method
// validation and empty-port stripping are left out (harness methods/URLs are
// well formed).
func VerifModelHTTPNewRequestWithContext(ctx context.Context, method, rawurl string, body io.Reader) (*http.Request, error) {
	if method == "" {
		method = "GET"
	}
	if ctx == nil {
		return nil, errors.New("net/http: nil Context")
	}
	u, err := url.Parse(rawurl)
	if err != nil {
		return nil, err
	}
	rc, ok := body.(io.ReadCloser)
	if !ok && body != nil {
		rc = io.NopCloser(body)
	}
	req := (&http.Request{
		Method:     method,
		URL:        u,
		Proto:      "HTTP/1.1",
		ProtoMajor: 1,
		ProtoMinor: 1,
		Header:     make(http.Header),
		Body:       rc,
		Host:       u.Host,
	}).WithContext(ctx)
	if body != nil {
		switch v := body.(type) {
		case *bytes.Buffer:
			req.ContentLength = int64(v.Len())
			buf := v.Bytes()
			req.GetBody = func() (io.ReadCloser, error) {
				r := bytes.NewReader(buf)
				return io.NopCloser(r), nil
			}
		case *bytes.Reader:
			req.ContentLength = int64(v.Len())
			snapshot := *v
			req.GetBody = func() (io.ReadCloser, error) {
				r := snapshot
				return io.NopCloser(&r), nil
			}
		case *strings.Reader:
			req.ContentLength = int64(v.Len())
			snapshot := *v
			req.GetBody = func() (io.ReadCloser, error) {
				r := snapshot
				return io.NopCloser(&r), nil
			}
		default:
		}
		if req.GetBody != nil && req.ContentLength == 0 {
			req.Body = http.NoBody
			req.GetBody = func() (io.ReadCloser, error) { return http.NoBody, nil }
		}
	}
	return req, nil
}

// VerifModelHTTPClientDo: one round trip through the client's transport.
// Redirect following, cookies and the client timeout are not modelled (the
// harness transport never answers with a Location header); a transport error
// is wrapped in *url.Error as the real client does. A nil Transport would mean
// the real network and is rejected.
func VerifModelHTTPClientDo(c *http.Client, req *http.Request) (*http.Response, error) {
	if c.Transport == nil {
		panic("verif http model: client without an explicit transport")
	}
	if req.URL == nil {
		return nil, &url.Error{Op: "Do", Err: errors.New("http: nil Request.URL")}
	}
	resp, err := c.Transport.RoundTrip(req)
	if err != nil {
		return nil, &url.Error{Op: req.Method[:1] + strings.ToLower(req.Method[1:]), URL: req.URL.String(), Err: err}
	}
	return resp, nil
}
