//kse:pkg utils/httputil
package httputil

import (
	"bytes"
	"errors"
	"fmt"
	"io"
	"net/http"
	"net/http/httptest"
	"strings"
	"sync"
	"time"

	"github.com/cenkalti/backoff"
	verif "github.com/uber/kraken/zzverif"
)

// verifAttempt is what the server side saw of one attempt.
type verifAttempt struct {
	method, url, header string
	body                []byte
	complete            bool // the declared body arrived in full
	status              int  // 0: no response (transport error)
}

// verifWire is the log of attempts, filled by the model transport under the
// engine and by a real httptest server natively.
type verifWire struct {
	mu       sync.Mutex
	attempts []verifAttempt
}

// answer draws the symbolic server behaviour for one attempt: no response
// (connection dropped) or a final status code. 1xx codes are interim responses
// in HTTP, never the final status of an exchange, and are left out.
func (w *verifWire) answer(a verifAttempt) (status int) {
	if !verif.Bool("transport_error") {
		a.status = verif.IntRange("status", 200, 599)
	}
	w.attempts = append(w.attempts, a)
	return a.status
}

// verifTransport stands where http.Transport stands (Send's SendTransport
// seam) when running under the engine. It describes how the real transport
// (one fresh connection per attempt, as with DisableKeepAlives) puts a request
// on the wire: the body is read to EOF; with a declared ContentLength > 0 a
// shorter body aborts the attempt with "http: ContentLength=N with Body length
// M"; with an undeclared length (opaque reader) whatever is read goes out
// chunked. Natively the same harness talks to a real httptest server through
// the real http.Transport (verifNativeRT below), so every replay checks this
// description against net/http.
type verifTransport struct{ wire *verifWire }

type verifOpaqueReader struct{ r io.Reader }

func (o verifOpaqueReader) Read(p []byte) (int, error) { return o.r.Read(p) }

func (t *verifTransport) RoundTrip(req *http.Request) (*http.Response, error) {
	a := verifAttempt{method: req.Method, url: req.URL.String(), header: req.Header.Get("X-Verif"), complete: true}
	if req.Body != nil && req.Body != http.NoBody {
		b, err := io.ReadAll(req.Body)
		req.Body.Close()
		a.body = b
		if err != nil || (req.ContentLength > 0 && int64(len(b)) != req.ContentLength) {
			a.complete = false
			t.wire.attempts = append(t.wire.attempts, a)
			return nil, fmt.Errorf("http: ContentLength=%d with Body length %d", req.ContentLength, len(b))
		}
	}
	status := t.wire.answer(a)
	if status == 0 {
		return nil, errors.New("EOF")
	}
	return &http.Response{StatusCode: status, Body: io.NopCloser(bytes.NewReader(nil)), Header: http.Header{}, Request: req}, nil
}

// verifNativeRT wraps the real transport natively: an attempt that the real
// transport abandons before the server sees a request is logged as an attempt
// whose body was not delivered.
type verifNativeRT struct {
	wire  *verifWire
	inner http.RoundTripper
}

func (t *verifNativeRT) RoundTrip(req *http.Request) (*http.Response, error) {
	t.wire.mu.Lock()
	before := len(t.wire.attempts)
	t.wire.mu.Unlock()
	hadBody := req.Body != nil && req.Body != http.NoBody
	a := verifAttempt{method: req.Method, url: req.URL.String(), header: req.Header.Get("X-Verif"), complete: !hadBody}
	resp, err := t.inner.RoundTrip(req)
	t.wire.mu.Lock()
	if len(t.wire.attempts) == before {
		t.wire.attempts = append(t.wire.attempts, a)
	}
	t.wire.mu.Unlock()
	return resp, err
}

func (w *verifWire) ServeHTTP(rw http.ResponseWriter, r *http.Request) {
	b, err := io.ReadAll(r.Body)
	w.mu.Lock()
	defer w.mu.Unlock()
	if len(b) == 0 {
		b = nil
	}
	a := verifAttempt{method: r.Method, url: "http://" + r.Host + r.URL.String(), header: r.Header.Get("X-Verif"), body: b, complete: err == nil}
	status := w.answer(a)
	if status == 0 {
		if c, _, err := rw.(http.Hijacker).Hijack(); err == nil {
			c.Close()
		}
		return
	}
	rw.WriteHeader(status)
}

const (
	verifBodyNone = iota
	verifBodyBytesReader
	verifBodyBuffer
	verifBodyStringsReader
	verifBodyOpaque
	verifBodyKinds
)

// non-forking helpers for the oracle
func verifIn(x int, codes []int) bool {
	r := false
	for _, c := range codes {
		r = verif.Or(r, x == c)
	}
	return r
}

func verifSameBytes(a, b []byte) bool {
	if len(a) != len(b) {
		return false
	}
	r := true
	for i := range a {
		r = verif.And(r, a[i] == b[i])
	}
	return r
}

// verifSend drives Send with a symbolic body, header, accepted/extra-retry
// code configuration and retry budget, and checks the statement on the
// attempts seen by the transport.
func verifSend(withBody, withRetry, allConfigs bool) {
	verif.Option("panic_is_violation", 1) // a panic must never end a path silently
	wire := &verifWire{}
	rawurl := "http://origin:80/x/y?z=1"
	var tr http.RoundTripper = &verifTransport{wire}
	if !verif.Symbolic() {
		srv := httptest.NewServer(wire)
		defer srv.Close()
		rawurl = srv.URL + "/x/y?z=1"
		tr = &verifNativeRT{wire, &http.Transport{DisableKeepAlives: true}}
	}
	nmethods := verif.Bound("methods", 1, 6)
	maxRetries := verif.Bound("max_retries", 2, 3)
	if withBody && withRetry { // the largest product: keep its thorough tier affordable
		nmethods = verif.Bound("methods_with_body_and_retries", 1, 2)
		maxRetries = verif.Bound("max_retries_with_body", 2, 2)
	}
	method := []string{"POST", "GET", "PUT", "PATCH", "DELETE", "HEAD"}[verif.Choice("method", nmethods)]
	hdr := verif.String("header", 2)
	for i := 0; i < len(hdr); i++ { // visible ASCII: a legal header value
		verif.Assume(verif.And(hdr[i] > 0x20, hdr[i] < 0x7f))
	}
	opts := []SendOption{SendTransport(tr), SendHeaders(map[string]string{"X-Verif": hdr})}

	var body []byte
	kind := verifBodyNone
	if withBody {
		body = verif.Bytes("body", verif.Len("body_len", 1, verif.Bound("body_len", 2, 3)))
		kind = 1 + verif.Choice("body_kind", verifBodyKinds-1)
		switch kind {
		case verifBodyBytesReader:
			opts = append(opts, SendBody(bytes.NewReader(body)))
		case verifBodyBuffer:
			opts = append(opts, SendBody(bytes.NewBuffer(append([]byte(nil), body...))))
		case verifBodyStringsReader:
			opts = append(opts, SendBody(strings.NewReader(string(body))))
		case verifBodyOpaque:
			opts = append(opts, SendBody(verifOpaqueReader{bytes.NewReader(body)}))
		}
	}

	// accepted codes: the default {200}, a 2xx pair, or a set with a 5xx code
	accepted := []int{200}
	nconf := 1
	if allConfigs {
		nconf = 3
	}
	switch verif.Choice("accepted_set", nconf) {
	case 1:
		accepted = []int{200, 202}
		opts = append(opts, SendAcceptedCodes(200, 202))
	case 2:
		accepted = []int{204, 503}
		opts = append(opts, SendAcceptedCodes(204, 503))
	}
	budget := 0
	if withRetry {
		budget = verif.Len("retries", 0, maxRetries)
		// (WithMaxRetries(b, 0) means "unlimited": a zero budget is a StopBackOff)
		ropts := []RetryOption{RetryBackoff(&backoff.StopBackOff{})}
		if budget > 0 {
			ropts = []RetryOption{RetryBackoff(backoff.WithMaxRetries(backoff.NewConstantBackOff(time.Millisecond), uint64(budget)))}
		}
		if budget == 2 && verif.Bool("default_backoff") {
			ropts = nil // SendRetry's own default: 2 retries
		}
		// extra retry codes; a code that is both accepted and retried is a
		// contradictory configuration (RetryCodes doc) and is left out
		switch verif.Choice("extra_retry_code", nconf) {
		case 1:
			ropts = append(ropts, RetryCodes(400))
		case 2:
			ropts = append(ropts, RetryCodes(404, 409))
		}
		opts = append(opts, SendRetry(ropts...))
	}

	resp, err := Send(method, rawurl, opts...)

	n := len(wire.attempts)
	verif.Assert("at-least-one-attempt", n >= 1)
	verif.Assert("attempts-bounded-by-backoff-budget", n <= budget+1)
	if withRetry {
		verif.Cover("retried", n >= 2)
	}
	verif.Cover("success", err == nil)
	verif.Cover("status-error", err != nil && !IsNetworkError(err))
	verif.Cover("network-error", IsNetworkError(err))
	last := wire.attempts[n-1]
	if err == nil {
		verif.Assert("success-is-the-last-attempts-accepted-status",
			verif.And(resp != nil, verifIn(last.status, accepted), resp.StatusCode == last.status))
		verif.Assert("success-only-with-complete-body", verif.And(last.complete, verifSameBytes(last.body, body)))
	} else if IsNetworkError(err) {
		verif.Assert("network-error-means-no-response", last.status == 0)
	} else {
		serr, ok := err.(StatusError)
		verif.Assert("status-error-carries-last-status",
			verif.And(ok, serr.Status == last.status, !verifIn(last.status, accepted)))
	}
	for i, a := range wire.attempts {
		verif.Assert("same-method", a.method == method)
		verif.Assert("same-url", a.url == rawurl)
		verif.Assert("same-header", a.header == hdr)
		verif.Assert("complete-original-body", verif.And(a.complete, verifSameBytes(a.body, body)))
		if i < n-1 {
			verif.Assert("accepted-code-never-retried", !verifIn(a.status, accepted))
		}
	}
}

// VerifSendNoBody: body-less requests of every method, with and without
// retries.
func VerifSendNoBody() { verifSend(false, true, true) }

// VerifSendBodyNoRetry: requests with every body kind, single attempt.
func VerifSendBodyNoRetry() { verifSend(true, false, true) }

// VerifFindingSendBodyRetry: requests with a body and a retry budget (see
// FINDINGS.md).
func VerifFindingSendBodyRetry() {
	verifSend(true, true, verif.Bound("all_code_sets_with_bodies", 0, 1) == 1)
}
