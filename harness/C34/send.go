//kse:pkg utils/httputil
package httputil

import (
	"bytes"
	"errors"
	"fmt"
	"io"
	"net/http"
	"net/http/httptest"
	"strings"
	"sync"
	"time"

	"github.com/cenkalti/backoff"
	verif "github.com/uber/kraken/zzverif"
)

// verifAttempt is what the server side saw of one attempt.
type verifAttempt struct {
	method, url, header string
	body                []byte
	complete            bool // the declared body arrived in full
	partial             bool // the connection was reset while the body was being sent: body holds what was sent until then
	status              int  // 0: no response (transport error)
}

// verifWire is the log of attempts, filled by the model transport under the
// engine and by a real httptest server natively.
type verifWire struct {
	mu       sync.Mutex
	attempts []verifAttempt
	// resetBelow > 0 enables "connection reset in the middle of the upload":
	// an attempt may die with a transport error after the transport has taken
	// 0..resetBelow-1 bytes from the request body.
	resetBelow int
}

// resetAfter draws whether this attempt is cut while its body is being sent,
// and after how many body bytes (k == resetBelow: no reset).
func (w *verifWire) resetAfter() (k int, reset bool) {
	if w.resetBelow == 0 {
		return 0, false
	}
	k = verif.Len("sent_before_reset", 0, w.resetBelow)
	return k, k < w.resetBelow
}

// cut consumes k bytes of the request body, as a transport does whose
// connection is reset at that point, and logs the attempt.
func (w *verifWire) cut(req *http.Request, a verifAttempt, k int) error {
	b := make([]byte, k)
	n, _ := io.ReadFull(req.Body, b)
	req.Body.Close()
	if n > 0 {
		a.body = b[:n]
	}
	a.partial, a.complete = true, false
	w.attempts = append(w.attempts, a)
	return errors.New("write tcp: connection reset by peer")
}

const verifNoTLS = "http: server gave HTTP response to HTTPS client"

// answer draws the symbolic server behaviour for one attempt: no response
// (connection dropped) or a final status code. 1xx codes are interim responses
// in HTTP, never the final status of an exchange, and are left out.
func (w *verifWire) answer(a verifAttempt) (status int) {
	if !verif.Bool("transport_error") {
		a.status = verif.IntRange("status", 200, 599)
	}
	w.attempts = append(w.attempts, a)
	return a.status
}

// verifTransport stands where http.Transport stands (Send's SendTransport
// seam) when running under the engine. It describes how the real transport
// (one fresh connection per attempt, as with DisableKeepAlives) puts a request
// on the wire: the body is read to EOF; with a declared ContentLength > 0 a
// shorter body aborts the attempt with "http: ContentLength=N with Body length
// M"; with an undeclared length (opaque reader) whatever is read goes out
// chunked. Natively the same harness talks to a real httptest server through
// the real http.Transport (verifNativeRT below), so every replay checks this
// description against net/http.
type verifTransport struct{ wire *verifWire }

type verifOpaqueReader struct{ r io.Reader }

func (o verifOpaqueReader) Read(p []byte) (int, error) { return o.r.Read(p) }

func (t *verifTransport) RoundTrip(req *http.Request) (*http.Response, error) {
	if req.URL.Scheme == "https" {
		// the server speaks plain http: the TLS handshake fails before any
		// byte of the request is sent; nothing reaches the server
		if req.Body != nil {
			req.Body.Close()
		}
		return nil, errors.New(verifNoTLS)
	}
	a := verifAttempt{method: req.Method, url: req.URL.String(), header: req.Header.Get("X-Verif"), complete: true}
	if req.Body != nil && req.Body != http.NoBody {
		if k, reset := t.wire.resetAfter(); reset {
			return nil, t.wire.cut(req, a, k)
		}
		b, err := io.ReadAll(req.Body)
		req.Body.Close()
		a.body = b
		if err != nil || (req.ContentLength > 0 && int64(len(b)) != req.ContentLength) {
			a.complete = false
			t.wire.attempts = append(t.wire.attempts, a)
			return nil, fmt.Errorf("http: ContentLength=%d with Body length %d", req.ContentLength, len(b))
		}
	}
	status := t.wire.answer(a)
	if status == 0 {
		return nil, errors.New("EOF")
	}
	return &http.Response{StatusCode: status, Body: io.NopCloser(bytes.NewReader(nil)), Header: http.Header{}, Request: req}, nil
}

// verifNativeRT wraps the real transport natively: an attempt that the real
// transport abandons before the server sees a request is logged as an attempt
// whose body was not delivered.
type verifNativeRT struct {
	wire  *verifWire
	inner http.RoundTripper
}

func (t *verifNativeRT) RoundTrip(req *http.Request) (*http.Response, error) {
	t.wire.mu.Lock()
	before := len(t.wire.attempts)
	t.wire.mu.Unlock()
	hadBody := req.Body != nil && req.Body != http.NoBody
	a := verifAttempt{method: req.Method, url: req.URL.String(), header: req.Header.Get("X-Verif"), complete: !hadBody}
	if hadBody && req.URL.Scheme != "https" {
		t.wire.mu.Lock()
		k, reset := t.wire.resetAfter()
		if reset {
			defer t.wire.mu.Unlock()
			return nil, t.wire.cut(req, a, k)
		}
		t.wire.mu.Unlock()
	}
	resp, err := t.inner.RoundTrip(req)
	t.wire.mu.Lock()
	if len(t.wire.attempts) == before && req.URL.Scheme != "https" {
		t.wire.attempts = append(t.wire.attempts, a)
	}
	t.wire.mu.Unlock()
	return resp, err
}

func (w *verifWire) ServeHTTP(rw http.ResponseWriter, r *http.Request) {
	b, err := io.ReadAll(r.Body)
	w.mu.Lock()
	defer w.mu.Unlock()
	if len(b) == 0 {
		b = nil
	}
	a := verifAttempt{method: r.Method, url: "http://" + r.Host + r.URL.String(), header: r.Header.Get("X-Verif"), body: b, complete: err == nil}
	status := w.answer(a)
	if status == 0 {
		if c, _, err := rw.(http.Hijacker).Hijack(); err == nil {
			c.Close()
		}
		return
	}
	rw.WriteHeader(status)
}

const (
	verifBodyNone = iota
	verifBodyBytesReader
	verifBodyBuffer
	verifBodyStringsReader
	verifBodyOpaque
	verifBodyKinds
	verifBodySeeker = verifBodyKinds // only in VerifSendSeekerBodyRetry
)

// verifSeeker is a plain io.ReadSeeker over a byte stream: no Len, WriteTo or
// other method through which net/http could learn the length or take a
// snapshot (no GetBody, unknown ContentLength), like an *os.File-backed store
// reader handed to Send in the middle of the stream.
type verifSeeker struct {
	data []byte
	pos  int64
}

func (s *verifSeeker) Read(p []byte) (int, error) {
	if s.pos >= int64(len(s.data)) {
		return 0, io.EOF
	}
	n := copy(p, s.data[s.pos:])
	s.pos += int64(n)
	return n, nil
}

func (s *verifSeeker) Seek(off int64, whence int) (int64, error) {
	abs := off
	switch whence {
	case io.SeekStart:
	case io.SeekCurrent:
		abs += s.pos
	case io.SeekEnd:
		abs += int64(len(s.data))
	default:
		return 0, errors.New("verifSeeker: invalid whence")
	}
	if abs < 0 {
		return 0, errors.New("verifSeeker: negative position")
	}
	s.pos = abs
	return abs, nil
}

func verifIsPrefix(p, b []byte) bool {
	if len(p) > len(b) {
		return false
	}
	r := true
	for i := range p {
		r = verif.And(r, p[i] == b[i])
	}
	return r
}

// non-forking helpers for the oracle
func verifIn(x int, codes []int) bool {
	r := false
	for _, c := range codes {
		r = verif.Or(r, x == c)
	}
	return r
}

func verifSameBytes(a, b []byte) bool {
	if len(a) != len(b) {
		return false
	}
	r := true
	for i := range a {
		r = verif.And(r, a[i] == b[i])
	}
	return r
}

// verifSend drives Send with a symbolic body, header, accepted/extra-retry
// code configuration and retry budget, and checks the statement on the
// attempts seen by the transport.
func verifSend(withBody, withRetry, allConfigs bool) { verifSendCfg(withBody, withRetry, allConfigs, false) }

// seeker: the body is a verifSeeker over a symbolic stream, handed to Send at
// a symbolic position (the original body is the rest of the stream); attempts
// may additionally be cut by a connection reset in the middle of the upload,
// and the request may go out as https with the http fallback enabled.
func verifSendCfg(withBody, withRetry, allConfigs, seeker bool) {
	verif.Option("panic_is_violation", 1) // a panic must never end a path silently
	wire := &verifWire{}
	rawurl := "http://origin:80/x/y?z=1"
	var tr http.RoundTripper = &verifTransport{wire}
	if !verif.Symbolic() {
		srv := httptest.NewServer(wire)
		defer srv.Close()
		rawurl = srv.URL + "/x/y?z=1"
		tr = &verifNativeRT{wire, &http.Transport{DisableKeepAlives: true}}
	}
	nmethods := verif.Bound("methods", 1, 6)
	maxRetries := verif.Bound("max_retries", 2, 3)
	if seeker {
		nmethods = verif.Bound("methods_seeker_body", 1, 2)
		maxRetries = verif.Bound("max_retries_seeker_body", 2, 3)
	} else if withBody && withRetry { // the largest product: keep its thorough tier affordable
		nmethods = verif.Bound("methods_with_body_and_retries", 1, 2)
		maxRetries = verif.Bound("max_retries_with_body", 2, 2)
	}
	method := []string{"POST", "GET", "PUT", "PATCH", "DELETE", "HEAD"}[verif.Choice("method", nmethods)]
	hdr := verif.String("header", 2)
	for i := 0; i < len(hdr); i++ { // visible ASCII: a legal header value
		verif.Assume(verif.And(hdr[i] > 0x20, hdr[i] < 0x7f))
	}
	opts := []SendOption{SendTransport(tr), SendHeaders(map[string]string{"X-Verif": hdr})}

	var body []byte
	kind := verifBodyNone
	fallback, start := false, 0
	if seeker {
		kind = verifBodySeeker
		stream := verif.Bytes("stream", verif.Len("stream_len", 1, verif.Bound("stream_len", 2, 3)))
		start = verif.Len("body_start", 0, len(stream))
		body = stream[start:]
		rs := &verifSeeker{data: stream}
		// the caller has consumed the front of the stream before calling Send
		if _, err := io.CopyN(io.Discard, verifOpaqueReader{rs}, int64(start)); err != nil {
			panic(err)
		}
		opts = append(opts, SendBody(rs))
		wire.resetBelow = len(body)
		if fallback = verif.Bool("https_with_http_fallback"); fallback {
			// the URL becomes https://...; the server speaks plain http only
			opts = append(opts, SendTLSTransport(tr), EnableHTTPFallback())
		}
	} else if withBody {
		body = verif.Bytes("body", verif.Len("body_len", 1, verif.Bound("body_len", 2, 3)))
		kind = 1 + verif.Choice("body_kind", verifBodyKinds-1)
		switch kind {
		case verifBodyBytesReader:
			opts = append(opts, SendBody(bytes.NewReader(body)))
		case verifBodyBuffer:
			opts = append(opts, SendBody(bytes.NewBuffer(append([]byte(nil), body...))))
		case verifBodyStringsReader:
			opts = append(opts, SendBody(strings.NewReader(string(body))))
		case verifBodyOpaque:
			opts = append(opts, SendBody(verifOpaqueReader{bytes.NewReader(body)}))
		}
	}

	// accepted codes: the default {200}, a 2xx pair, or a set with a 5xx code
	accepted := []int{200}
	nconf := 1
	if allConfigs {
		nconf = 3
	}
	switch verif.Choice("accepted_set", nconf) {
	case 1:
		accepted = []int{200, 202}
		opts = append(opts, SendAcceptedCodes(200, 202))
	case 2:
		accepted = []int{204, 503}
		opts = append(opts, SendAcceptedCodes(204, 503))
	}
	budget := 0
	if withRetry {
		budget = verif.Len("retries", 0, maxRetries)
		// (WithMaxRetries(b, 0) means "unlimited": a zero budget is a StopBackOff)
		ropts := []RetryOption{RetryBackoff(&backoff.StopBackOff{})}
		if budget > 0 {
			ropts = []RetryOption{RetryBackoff(backoff.WithMaxRetries(backoff.NewConstantBackOff(time.Millisecond), uint64(budget)))}
		}
		if budget == 2 && !seeker && verif.Bool("default_backoff") {
			ropts = nil // SendRetry's own default: 2 retries
		}
		// extra retry codes; a code that is both accepted and retried is a
		// contradictory configuration (RetryCodes doc) and is left out
		switch verif.Choice("extra_retry_code", nconf) {
		case 1:
			ropts = append(ropts, RetryCodes(400))
		case 2:
			ropts = append(ropts, RetryCodes(404, 409))
		}
		opts = append(opts, SendRetry(ropts...))
	}

	resp, err := Send(method, rawurl, opts...)

	n := len(wire.attempts)
	verif.Assert("at-least-one-attempt", n >= 1)
	verif.Assert("attempts-bounded-by-backoff-budget", n <= budget+1)
	if withRetry {
		verif.Cover("retried", n >= 2)
	}
	if seeker {
		verif.Cover("retried-body-from-nonzero-start", n >= 2 && len(body) > 0 && start > 0)
		verif.Cover("retried-after-reset-mid-body", n >= 2 && wire.attempts[0].partial)
		verif.Cover("retried-with-http-fallback", n >= 2 && fallback)
		verif.Cover("success-after-retry", n >= 2 && err == nil)
	}
	verif.Cover("success", err == nil)
	verif.Cover("status-error", err != nil && !IsNetworkError(err))
	verif.Cover("network-error", IsNetworkError(err))
	last := wire.attempts[n-1]
	if err == nil {
		verif.Assert("success-is-the-last-attempts-accepted-status",
			verif.And(resp != nil, verifIn(last.status, accepted), resp.StatusCode == last.status))
		verif.Assert("success-only-with-complete-body", verif.And(last.complete, verifSameBytes(last.body, body)))
	} else if IsNetworkError(err) {
		verif.Assert("network-error-means-no-response", last.status == 0)
	} else {
		serr, ok := err.(StatusError)
		verif.Assert("status-error-carries-last-status",
			verif.And(ok, serr.Status == last.status, !verifIn(last.status, accepted)))
	}
	for i, a := range wire.attempts {
		verif.Assert("same-method", a.method == method)
		verif.Assert("same-url", a.url == rawurl)
		verif.Assert("same-header", a.header == hdr)
		if a.partial {
			// the network cut the attempt: what was sent until then is the
			// beginning of the original body
			verif.Assert("complete-original-body", verifIsPrefix(a.body, body))
		} else {
			verif.Assert("complete-original-body", verif.And(a.complete, verifSameBytes(a.body, body)))
		}
		if i < n-1 {
			verif.Assert("accepted-code-never-retried", !verifIn(a.status, accepted))
		}
	}
}

// VerifSendNoBody: body-less requests of every method, with and without
// retries.
func VerifSendNoBody() { verifSend(false, true, true) }

// VerifSendBodyNoRetry: requests with every body kind, single attempt.
func VerifSendBodyNoRetry() { verifSend(true, false, true) }

// VerifSendSeekerBodyRetry: the body is a plain io.ReadSeeker positioned at a
// symbolic offset of its stream; retries after statuses, dropped connections
// and resets in the middle of the upload, and the https->http fallback, must
// all resend the stream from that offset to its end.
func VerifSendSeekerBodyRetry() {
	// default code sets only: the code-set logic does not depend on the body
	// kind and is covered with all sets by the other harnesses (with all nine
	// combinations the thorough tier does not close within its 15 minutes)
	verifSendCfg(true, true, false, true)
}

// VerifFindingSendBodyRetry: requests with a body and a retry budget (see
// FINDINGS.md).
func VerifFindingSendBodyRetry() {
	verifSend(true, true, verif.Bound("all_code_sets_with_bodies", 0, 1) == 1)
}
