//kse:pkg lib/dockerregistry
package dockerregistry

import (
	verif "github.com/uber/kraken/zzverif"
)

// The registry storage layout (docker/distribution storage/paths.go) below
// the repositories root, as the storage driver receives it.
const (
	verifKManifestRevision = iota // <root>/repositories/<repo>/_manifests/revisions/sha256/<hex>/link
	verifKTagsDir                 // <root>/repositories/<repo>/_manifests/tags
	verifKTagCurrent              // <root>/repositories/<repo>/_manifests/tags/<tag>/current/link
	verifKTagIndex                // <root>/repositories/<repo>/_manifests/tags/<tag>/index/sha256/<hex>/link
	verifKLayerLink               // <root>/repositories/<repo>/_layers/sha256/<hex>/link
	verifKLayerData               // <root>/repositories/<repo>/_layers/sha256/<hex>/data
	verifKBlobData                // <root>/blobs/sha256/<hex[:2]>/<hex>/data
	verifKUploadData              // <root>/repositories/<repo>/_uploads/<uuid>/data
	verifKUploadStartedAt         // <root>/repositories/<repo>/_uploads/<uuid>/startedat
	verifKHashState               // <root>/repositories/<repo>/_uploads/<uuid>/hashstates/<alg>/<offset>
	verifKHashStateDir            // <root>/repositories/<repo>/_uploads/<uuid>/hashstates/<alg>
	verifNumKinds
)

const verifRoot = "/docker/registry/v2"

type verifParts struct {
	kind                          int
	repo, tag, hex, uuid, alg, off string
	// shard: the two-character directory above a blob; "" means hex[:2] (what
	// the registry writes). The parsers accept any two [0-9a-z] there.
	shard string
}

func verifBuild(p verifParts) string {
	r := verifRoot + "/repositories/" + p.repo
	switch p.kind {
	case verifKManifestRevision:
		return r + "/_manifests/revisions/sha256/" + p.hex + "/link"
	case verifKTagsDir:
		return r + "/_manifests/tags"
	case verifKTagCurrent:
		return r + "/_manifests/tags/" + p.tag + "/current/link"
	case verifKTagIndex:
		return r + "/_manifests/tags/" + p.tag + "/index/sha256/" + p.hex + "/link"
	case verifKLayerLink:
		return r + "/_layers/sha256/" + p.hex + "/link"
	case verifKLayerData:
		return r + "/_layers/sha256/" + p.hex + "/data"
	case verifKBlobData:
		shard := p.shard
		if shard == "" {
			shard = p.hex[:2]
		}
		return verifRoot + "/blobs/sha256/" + shard + "/" + p.hex + "/data"
	case verifKUploadData:
		return r + "/_uploads/" + p.uuid + "/data"
	case verifKUploadStartedAt:
		return r + "/_uploads/" + p.uuid + "/startedat"
	case verifKHashState:
		return r + "/_uploads/" + p.uuid + "/hashstates/" + p.alg + "/" + p.off
	case verifKHashStateDir:
		return r + "/_uploads/" + p.uuid + "/hashstates/" + p.alg
	}
	panic("kind")
}

func verifHasRepo(k int) bool   { return k != verifKBlobData }
func verifHasTag(k int) bool    { return k == verifKTagCurrent || k == verifKTagIndex }
func verifHasUpload(k int) bool { return k >= verifKUploadData && k <= verifKHashStateDir }
func verifHasDigest(k int) bool {
	return k == verifKManifestRevision || k == verifKTagIndex || k == verifKLayerLink || k == verifKLayerData || k == verifKBlobData
}

// verifWantType: the classification ParsePath documents for each kind, as
// the strings behind PathType / PathSubType.
func verifWantType(k int) (string, string) {
	switch k {
	case verifKManifestRevision:
		return "_manifests", "revisions"
	case verifKTagsDir, verifKTagCurrent, verifKTagIndex:
		return "_manifests", "tags"
	case verifKLayerLink:
		return "_layers", "link"
	case verifKLayerData:
		return "_layers", "data"
	case verifKBlobData:
		return "blobs", "data"
	case verifKUploadData:
		return "_uploads", "data"
	case verifKUploadStartedAt:
		return "_uploads", "startedat"
	}
	return "_uploads", "hashstates"
}

func verifAlnum(c byte) bool {
	return verif.Or(verif.And(c >= 'a', c <= 'z'), verif.And(c >= '0', c <= '9'))
}

func verifHexDigit(c byte) bool {
	return verif.Or(verif.And(c >= 'a', c <= 'f'), verif.And(c >= '0', c <= '9'))
}

// Words of the layout that are also valid Docker repository path components.
var verifRepoKeywords = []string{"repositories", "sha256", "tags", "data", "blobs", "link", "hashstates", "revisions", "startedat", "current", "index", "v2", "docker", "registry"}

func verifRepoBytes(n int) []byte {
	b := verif.Bytes("repo", n)
	for j := range b {
		verif.Assume(verifAlnum(b[j]))
	}
	return b
}

// verifRepo: a Docker repository name ([a-z0-9]+(?:[._-][a-z0-9]+)* components
// joined by '/') of one of the shapes
//
//	xy | x/y | KW/x | x/KW | KW/KW' (thorough) | x/KW/y (thorough)
//
// with x, y symbolic alphanumeric bytes and KW one of the first nkw layout
// words above.
func verifRepo(nkw int) string {
	kw := func() string { return verifRepoKeywords[verif.Choice("repo_keyword", nkw)] }
	switch verif.Choice("repo_shape", verif.Bound("repo_shapes", 4, 6)) {
	case 0:
		return string(verifRepoBytes(2))
	case 1:
		b := verifRepoBytes(2)
		return string(b[:1]) + "/" + string(b[1:])
	case 2:
		return kw() + "/" + string(verifRepoBytes(1))
	case 3:
		return string(verifRepoBytes(1)) + "/" + kw()
	case 4:
		return kw() + "/" + kw()
	}
	b := verifRepoBytes(2)
	return string(b[:1]) + "/" + kw() + "/" + string(b[1:])
}

// Tags ([A-Za-z0-9_][A-Za-z0-9_.-]{0,127}) that coincide with layout words or
// layout directory names.
var verifTagKeywords = []string{"_layers", "current", "link", "_manifests", "_uploads", "index", "tags", "sha256"}

func verifTagChars(b []byte) {
	for j := range b {
		c := b[j]
		word := verif.Or(verifAlnum(c), verif.And(c >= 'A', c <= 'Z'), c == '_')
		if j == 0 {
			verif.Assume(word)
		} else {
			verif.Assume(verif.Or(word, c == '.', c == '-'))
		}
	}
}

func verifTag(nkw, minLen, maxLen int) string {
	if verif.Choice("tag_kind", 2) == 0 {
		return verifTagKeywords[verif.Choice("tag_keyword", nkw)]
	}
	b := verif.Bytes("tag", verif.Len("tag_len", minLen, maxLen))
	verifTagChars(b)
	return string(b)
}

const verifHexTail = "3a5c916c92643ff77519ffa742d3ec61b7f591b6b7504599d95a4a41134e"

// verifHex: 64 hex digits; the first (shard directory) and the last are
// symbolic.
func verifHex() string {
	b := verif.Bytes("hex", 2)
	verif.Assume(verifHexDigit(b[0]))
	verif.Assume(verifHexDigit(b[1]))
	return string(b[:1]) + "f" + verifHexTail[:30] + "0" + verifHexTail[30:] + string(b[1:])
}

// verifUUID: 8-4-4-4-12 with three symbolic hex digits.
func verifUUID() string {
	b := verif.Bytes("uuid", 3)
	for j := range b {
		verif.Assume(verifHexDigit(b[j]))
	}
	return string(b[:1]) + "b9c1d2e-4f6a-4b" + string(b[1:2]) + "8-9c0d-1e2f3a4b5c6" + string(b[2:])
}

func verifAlg() string {
	if verif.Choice("alg", 2) == 0 {
		return "sha256"
	}
	b := verif.Bytes("alg", verif.Bound("alg_len", 1, 2))
	for j := range b {
		verif.Assume(verif.Or(verifAlnum(b[j]), verif.And(b[j] >= 'A', b[j] <= 'Z')))
	}
	return string(b)
}

func verifOffset() string {
	b := verif.Bytes("off", verif.Len("off_len", 1, 2))
	for j := range b {
		verif.Assume(verif.And(b[j] >= '0', b[j] <= '9'))
	}
	return string(b)
}

// verifCheckBuilt: the oracle for a path built from parts p.
func verifCheckBuilt(p verifParts, checkRepo bool) {
	path := verifBuild(p)
	pt, st, err := ParsePath(path)
	verif.Assert("parse-ok", err == nil)
	wt, ws := verifWantType(p.kind)
	verif.Assert("path-type", string(pt) == wt)
	verif.Assert("path-subtype", string(st) == ws)
	if checkRepo && verifHasRepo(p.kind) {
		repo, err := GetRepo(path)
		verif.Assert("repo-ok", err == nil)
		verif.Assert("repo", repo == p.repo)
	}
	if verifHasTag(p.kind) {
		tag, cur, err := GetManifestTag(path)
		verif.Assert("tag-ok", err == nil)
		verif.Assert("tag", tag == p.tag)
		verif.Assert("tag-is-current", cur == (p.kind == verifKTagCurrent))
	}
	if verifHasDigest(p.kind) {
		var got string
		var err error
		switch p.kind {
		case verifKManifestRevision, verifKTagIndex:
			d, e := GetManifestDigest(path)
			got, err = d.Hex(), e
		case verifKLayerLink, verifKLayerData:
			d, e := GetLayerDigest(path)
			got, err = d.Hex(), e
		default:
			d, e := GetBlobDigest(path)
			got, err = d.Hex(), e
		}
		verif.Assert("digest-ok", err == nil)
		verif.Assert("digest", got == p.hex)
	}
	if verifHasUpload(p.kind) {
		u, err := GetUploadUUID(path)
		verif.Assert("uuid-ok", err == nil)
		verif.Assert("uuid", u == p.uuid)
	}
	if p.kind == verifKHashState {
		alg, off, err := GetUploadAlgoAndOffset(path)
		verif.Assert("algo-offset-ok", err == nil)
		verif.Assert("algo", alg == p.alg)
		verif.Assert("offset", off == p.off)
	}
}

func verifParts0(kind int) verifParts {
	p := verifParts{kind: kind}
	if verifHasTag(kind) {
		p.tag = verifTag(verif.Bound("tag_keywords", 5, len(verifTagKeywords)), verif.Bound("tag_min", 2, 1), verif.Bound("tag_max", 2, 3))
	}
	if verifHasDigest(kind) {
		p.hex = verifHex()
	}
	if verifHasUpload(kind) {
		p.uuid = verifUUID()
	}
	if kind == verifKHashState || kind == verifKHashStateDir {
		p.alg = verifAlg()
	}
	if kind == verifKHashState {
		p.off = verifOffset()
	}
	return p
}

// VerifBuiltPathsParse: every kind of layout path built from valid components
// is classified as that kind and the extractors return the components.
// Repository components include the word "repositories" and tags include the
// layout directory names (the inputs of FINDINGS.md F1/F2, fixed in b28a4cf).
func VerifBuiltPathsParse() {
	kind := verif.Choice("kind", verifNumKinds)
	p := verifParts0(kind)
	if verifHasRepo(kind) {
		p.repo = verifRepo(verif.Bound("repo_keywords", 4, 8))
	}
	verifCheckBuilt(p, true)
}

// VerifFindingGetRepoRepositoriesComponent: as above for repository names with
// a component "repositories" (a valid Docker path component).
func VerifFindingGetRepoRepositoriesComponent() {
	kinds := []int{verifKTagsDir, verifKLayerLink, verifKUploadData, verifKTagCurrent}
	kind := kinds[verif.Choice("kind", len(kinds))]
	p := verifParts0(kind)
	b := verifRepoBytes(2)
	switch verif.Choice("repo_shape", 4) {
	case 0:
		p.repo = string(b[:1]) + "/repositories"
	case 1:
		p.repo = "repositories/" + string(b[:1])
	case 2:
		p.repo = string(b[:1]) + "/repositories/" + string(b[1:])
	default:
		p.repo = "repositories"
	}
	verifCheckBuilt(p, true)
}

// VerifFindingGetRepoTagNamedLikeLayoutDir: tags "_manifests", "_layers" and
// "_uploads" are valid tag names ([A-Za-z0-9_][A-Za-z0-9_.-]{0,127}).
func VerifFindingGetRepoTagNamedLikeLayoutDir() {
	kinds := []int{verifKTagCurrent, verifKTagIndex}
	p := verifParts{kind: kinds[verif.Choice("kind", 2)]}
	p.tag = []string{"_manifests", "_layers", "_uploads"}[verif.Choice("tag", 3)]
	p.hex = verifHex()
	p.repo = string(verifRepoBytes(2))
	verifCheckBuilt(p, true)
}
