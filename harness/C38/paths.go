//kse:pkg lib/dockerregistry
package dockerregistry

import (
	verif "github.com/uber/kraken/zzverif"
)

// The registry storage layout (docker/distribution storage/paths.go) below
// the repositories root, as the storage driver receives it.
const (
	verifKManifestRevision = iota // <root>/repositories/<repo>/_manifests/revisions/sha256/<hex>/link
	verifKTagsDir                 // <root>/repositories/<repo>/_manifests/tags
	verifKTagCurrent              // <root>/repositories/<repo>/_manifests/tags/<tag>/current/link
	verifKTagIndex                // <root>/repositories/<repo>/_manifests/tags/<tag>/index/sha256/<hex>/link
	verifKLayerLink               // <root>/repositories/<repo>/_layers/sha256/<hex>/link
	verifKLayerData               // <root>/repositories/<repo>/_layers/sha256/<hex>/data
	verifKBlobData                // <root>/blobs/sha256/<hex[:2]>/<hex>/data
	verifKUploadData              // <root>/repositories/<repo>/_uploads/<uuid>/data
	verifKUploadStartedAt         // <root>/repositories/<repo>/_uploads/<uuid>/startedat
	verifKHashState               // <root>/repositories/<repo>/_uploads/<uuid>/hashstates/<alg>/<offset>
	verifKHashStateDir            // <root>/repositories/<repo>/_uploads/<uuid>/hashstates/<alg>
	verifNumKinds
)

const verifRoot = "/docker/registry/v2"

type verifParts struct {
	kind                          int
	repo, tag, hex, uuid, alg, off string
}

func verifBuild(p verifParts) string {
	r := verifRoot + "/repositories/" + p.repo
	switch p.kind {
	case verifKManifestRevision:
		return r + "/_manifests/revisions/sha256/" + p.hex + "/link"
	case verifKTagsDir:
		return r + "/_manifests/tags"
	case verifKTagCurrent:
		return r + "/_manifests/tags/" + p.tag + "/current/link"
	case verifKTagIndex:
		return r + "/_manifests/tags/" + p.tag + "/index/sha256/" + p.hex + "/link"
	case verifKLayerLink:
		return r + "/_layers/sha256/" + p.hex + "/link"
	case verifKLayerData:
		return r + "/_layers/sha256/" + p.hex + "/data"
	case verifKBlobData:
		return verifRoot + "/blobs/sha256/" + p.hex[:2] + "/" + p.hex + "/data"
	case verifKUploadData:
		return r + "/_uploads/" + p.uuid + "/data"
	case verifKUploadStartedAt:
		return r + "/_uploads/" + p.uuid + "/startedat"
	case verifKHashState:
		return r + "/_uploads/" + p.uuid + "/hashstates/" + p.alg + "/" + p.off
	case verifKHashStateDir:
		return r + "/_uploads/" + p.uuid + "/hashstates/" + p.alg
	}
	panic("kind")
}

func verifHasRepo(k int) bool   { return k != verifKBlobData }
func verifHasTag(k int) bool    { return k == verifKTagCurrent || k == verifKTagIndex }
func verifHasUpload(k int) bool { return k >= verifKUploadData && k <= verifKHashStateDir }
func verifHasDigest(k int) bool {
	return k == verifKManifestRevision || k == verifKTagIndex || k == verifKLayerLink || k == verifKLayerData || k == verifKBlobData
}

func verifWantType(k int) (PathType, PathSubType) {
	switch k {
	case verifKManifestRevision:
		return _manifests, _revisions
	case verifKTagsDir, verifKTagCurrent, verifKTagIndex:
		return _manifests, _tags
	case verifKLayerLink:
		return _layers, _link
	case verifKLayerData:
		return _layers, _data
	case verifKBlobData:
		return _blobs, _data
	case verifKUploadData:
		return _uploads, _data
	case verifKUploadStartedAt:
		return _uploads, _startedat
	}
	return _uploads, _hashstates
}

func verifAlnum(c byte) bool {
	return verif.Or(verif.And(c >= 'a', c <= 'z'), verif.And(c >= '0', c <= '9'))
}

func verifHexDigit(c byte) bool {
	return verif.Or(verif.And(c >= 'a', c <= 'f'), verif.And(c >= '0', c <= '9'))
}

// Words of the layout that are also valid Docker repository path components.
var verifRepoKeywords = []string{"blobs", "sha256", "tags", "data", "link", "v2", "docker", "registry", "current", "index", "revisions", "hashstates", "startedat"}

// verifRepoComponent: a layout word (first nkw of the list above) or 1..maxLen
// symbolic alphanumeric bytes ([a-z0-9]+(?:[._-][a-z0-9]+)* for <= 2 bytes).
func verifRepoComponent(nkw, maxLen int) string {
	k := verif.Choice("repo_comp_kind", 1+maxLen)
	if k == 0 {
		return verifRepoKeywords[verif.Choice("repo_keyword", nkw)]
	}
	b := verif.Bytes("repo_comp", k)
	for j := range b {
		verif.Assume(verifAlnum(b[j]))
	}
	return string(b)
}

func verifRepo(maxComp, nkw, maxLen int) string {
	n := verif.Len("repo_comps", 1, maxComp)
	repo := ""
	for i := 0; i < n; i++ {
		if i > 0 {
			repo += "/"
		}
		repo += verifRepoComponent(nkw, maxLen)
	}
	return repo
}

// Tags ([A-Za-z0-9_][A-Za-z0-9_.-]{0,127}) that coincide with layout words.
var verifTagKeywords = []string{"current", "link", "index", "tags", "sha256"}

func verifTagChars(b []byte) {
	for j := range b {
		c := b[j]
		word := verif.Or(verifAlnum(c), verif.And(c >= 'A', c <= 'Z'), c == '_')
		if j == 0 {
			verif.Assume(word)
		} else {
			verif.Assume(verif.Or(word, c == '.', c == '-'))
		}
	}
}

func verifTag(nkw, minLen, maxLen int) string {
	if verif.Choice("tag_kind", 2) == 0 {
		return verifTagKeywords[verif.Choice("tag_keyword", nkw)]
	}
	b := verif.Bytes("tag", verif.Len("tag_len", minLen, maxLen))
	verifTagChars(b)
	return string(b)
}

const verifHexTail = "3a5c916c92643ff77519ffa742d3ec61b7f591b6b7504599d95a4a41134e"

// verifHex: 64 hex digits; the first two (the shard directory), one in the
// middle and the last are symbolic.
func verifHex() string {
	b := verif.Bytes("hex", 4)
	for j := range b {
		verif.Assume(verifHexDigit(b[j]))
	}
	return string(b[:2]) + verifHexTail[:30] + string(b[2:3]) + verifHexTail[30:] + string(b[3:])
}

// verifUUID: 8-4-4-4-12 with three symbolic hex digits.
func verifUUID() string {
	b := verif.Bytes("uuid", 3)
	for j := range b {
		verif.Assume(verifHexDigit(b[j]))
	}
	return string(b[:1]) + "b9c1d2e-4f6a-4b" + string(b[1:2]) + "8-9c0d-1e2f3a4b5c6" + string(b[2:])
}

func verifAlg() string {
	if verif.Choice("alg", 2) == 0 {
		return "sha256"
	}
	b := verif.Bytes("alg", 2)
	for j := range b {
		verif.Assume(verif.Or(verifAlnum(b[j]), verif.And(b[j] >= 'A', b[j] <= 'Z')))
	}
	return string(b)
}

func verifOffset() string {
	b := verif.Bytes("off", verif.Len("off_len", 1, 2))
	for j := range b {
		verif.Assume(verif.And(b[j] >= '0', b[j] <= '9'))
	}
	return string(b)
}

// verifCheckBuilt: the oracle for a path built from parts p.
func verifCheckBuilt(p verifParts, checkRepo bool) {
	path := verifBuild(p)
	pt, st, err := ParsePath(path)
	verif.Assert("parse-ok", err == nil)
	wt, ws := verifWantType(p.kind)
	verif.Assert("path-type", pt == wt)
	verif.Assert("path-subtype", st == ws)
	if checkRepo && verifHasRepo(p.kind) {
		repo, err := GetRepo(path)
		verif.Assert("repo-ok", err == nil)
		verif.Assert("repo", repo == p.repo)
	}
	if verifHasTag(p.kind) {
		tag, cur, err := GetManifestTag(path)
		verif.Assert("tag-ok", err == nil)
		verif.Assert("tag", tag == p.tag)
		verif.Assert("tag-is-current", cur == (p.kind == verifKTagCurrent))
	}
	if verifHasDigest(p.kind) {
		var got string
		var err error
		switch p.kind {
		case verifKManifestRevision, verifKTagIndex:
			d, e := GetManifestDigest(path)
			got, err = d.Hex(), e
		case verifKLayerLink, verifKLayerData:
			d, e := GetLayerDigest(path)
			got, err = d.Hex(), e
		default:
			d, e := GetBlobDigest(path)
			got, err = d.Hex(), e
		}
		verif.Assert("digest-ok", err == nil)
		verif.Assert("digest", got == p.hex)
	}
	if verifHasUpload(p.kind) {
		u, err := GetUploadUUID(path)
		verif.Assert("uuid-ok", err == nil)
		verif.Assert("uuid", u == p.uuid)
	}
	if p.kind == verifKHashState {
		alg, off, err := GetUploadAlgoAndOffset(path)
		verif.Assert("algo-offset-ok", err == nil)
		verif.Assert("algo", alg == p.alg)
		verif.Assert("offset", off == p.off)
	}
}

func verifParts0(kind int) verifParts {
	p := verifParts{kind: kind}
	if verifHasTag(kind) {
		p.tag = verifTag(verif.Bound("tag_keywords", 3, len(verifTagKeywords)), verif.Bound("tag_min", 2, 1), verif.Bound("tag_max", 2, 3))
	}
	if verifHasDigest(kind) {
		p.hex = verifHex()
	}
	if verifHasUpload(kind) {
		p.uuid = verifUUID()
	}
	if kind == verifKHashState || kind == verifKHashStateDir {
		p.alg = verifAlg()
	}
	if kind == verifKHashState {
		p.off = verifOffset()
	}
	return p
}

// VerifBuiltPathsParse: every kind of layout path built from valid components
// is classified as that kind and the extractors return the components.
// Repository names here do not contain a "repositories" component and tags are
// not "_manifests"/"_layers"/"_uploads" (see VerifFindingGetRepo*).
func VerifBuiltPathsParse() {
	kind := verif.Choice("kind", verifNumKinds)
	p := verifParts0(kind)
	if verifHasRepo(kind) {
		p.repo = verifRepo(verif.Bound("repo_comps", 2, 3), verif.Bound("repo_keywords", 5, len(verifRepoKeywords)), verif.Bound("repo_comp_len", 1, 2))
	}
	verifCheckBuilt(p, true)
}
