//kse:pkg lib/dockerregistry
package dockerregistry

import (
	"strings"

	verif "github.com/uber/kraken/zzverif"
)

const verifConcreteHex = "ff" + verifHexTail + "28"

// verifExtract parses path as kind with the extractors the storage driver uses
// for that kind; ok is false when any of them rejects the path.
func verifExtract(kind int, path string) (q verifParts, ok bool) {
	q.kind = kind
	var err error
	if verifHasRepo(kind) {
		if q.repo, err = GetRepo(path); err != nil {
			return q, false
		}
	}
	if verifHasTag(kind) {
		var cur bool
		if q.tag, cur, err = GetManifestTag(path); err != nil || cur != (kind == verifKTagCurrent) {
			return q, false
		}
	}
	switch kind {
	case verifKManifestRevision, verifKTagIndex:
		d, err := GetManifestDigest(path)
		if err != nil {
			return q, false
		}
		q.hex = d.Hex()
	case verifKLayerLink, verifKLayerData:
		d, err := GetLayerDigest(path)
		if err != nil {
			return q, false
		}
		q.hex = d.Hex()
	case verifKBlobData:
		d, err := GetBlobDigest(path)
		if err != nil {
			return q, false
		}
		q.hex = d.Hex()
	}
	if verifHasUpload(kind) {
		if q.uuid, err = GetUploadUUID(path); err != nil {
			return q, false
		}
	}
	if kind == verifKHashState {
		if q.alg, q.off, err = GetUploadAlgoAndOffset(path); err != nil {
			return q, false
		}
	}
	if kind == verifKHashStateDir {
		// the only extractor for this kind is GetUploadUUID; the algorithm is
		// whatever follows "hashstates/".
		if _, _, err := GetUploadAlgoAndOffset(path); err == nil {
			return q, false // a hash state with offset: another kind
		}
		i := strings.LastIndex(path, "/hashstates/")
		if i < 0 {
			return q, false
		}
		q.alg = path[i+len("/hashstates/"):]
	}
	return q, true
}

// VerifMutatedPathRejectedOrConsistent: one byte of the layout part of a built
// path (everything after the repository name; for blob paths everything after
// the root) is replaced by an arbitrary different ASCII byte. The result is
// either rejected (by ParsePath, or by an extractor used for that kind), or
// classified as another kind, or it is exactly the layout path of the
// components the extractors return.
//
// The two-character shard directory of blob paths is treated as a component of
// its own (the parsers accept any two [0-9a-z] there and do not compare it with
// the digest). In the quick tier the interior of the 64-digit digest is not
// mutated.
func VerifMutatedPathRejectedOrConsistent() {
	kind := verif.Choice("kind", verifNumKinds)
	p := verifParts{kind: kind, repo: "ab/c", tag: "v1", hex: verifConcreteHex, uuid: "0b9c1d2e-4f6a-4b78-9c0d-1e2f3a4b5c6d", alg: "sha256", off: "10"}
	path := verifBuild(p)
	start := len(verifRoot)
	if verifHasRepo(kind) {
		start = len(verifRoot + "/repositories/" + p.repo)
	}
	var positions []int
	hexAt := strings.LastIndex(path, p.hex)
	keepHex := verif.Bound("mutated_hex_digits_each_end", 1, 3)
	for i := start; i < len(path); i++ {
		if verifHasDigest(kind) && i >= hexAt+keepHex && i < hexAt+len(p.hex)-keepHex {
			continue
		}
		positions = append(positions, i)
	}
	pos := positions[verif.Choice("position", len(positions))]
	m := verif.Byte("byte")
	verif.Assume(m >= 1 && m <= 127)
	verif.Assume(m != path[pos])
	b := []byte(path)
	b[pos] = m
	mp := string(b)

	pt, st, err := ParsePath(mp)
	if err != nil {
		verif.Reach("rejected-by-parse-path")
		return
	}
	wt, ws := verifWantType(kind)
	if string(pt) != wt || string(st) != ws {
		verif.Reach("classified-as-another-kind")
		return
	}
	q, ok := verifExtract(kind, mp)
	if !ok {
		verif.Reach("rejected-by-extractor")
		return
	}
	if kind == verifKBlobData {
		q.shard = mp[hexAt-3 : hexAt-1]
	}
	verif.Reach("accepted")
	verif.Assert("accepted-path-is-the-layout-path-of-its-components", verifBuild(q) == mp)
	// tag, upload id, algorithm and offset are single path segments
	for _, c := range []string{q.tag, q.uuid, q.alg, q.off} {
		verif.Assert("component-is-a-single-segment", !strings.Contains(c, "/"))
	}
}
