//kse:pkg lib/store/disk
package disk

import (
	"io"
	"path/filepath"

	"github.com/uber-go/tally"
	verif "github.com/uber/kraken/zzverif"
)

func verifNewStore(reboot bool, shard int) (*Store, error) {
	return NewStore(&Config{CapacityBytes: 100, RootDir: filepath.Join(verif.TempDir(), "disk"), RebootIncompleteBlobs: reboot, ShardLength: shard}, tally.NoopScope)
}

// VerifSmokeCrash: create+write+complete one blob with a crash anywhere;
// after restart a blob that was completed is listed with its bytes.
func VerifSmokeCrash() {
	data := verif.Bytes("data", 2)
	completed := false
	crashed := verif.CrashScope(func() {
		s, err := verifNewStore(false, 0)
		verif.Assert("new-store", err == nil)
		f, err := s.Create("k1", 2)
		verif.Assert("create", err == nil)
		_, err = f.Write(data)
		verif.Assert("write", err == nil)
		f.Close()
		err = s.MarkComplete("k1")
		verif.Assert("complete", err == nil)
		completed = true
	})
	verif.Cover("crashed", crashed)
	verif.Cover("not-crashed", !crashed)
	s, err := verifNewStore(false, 0)
	verif.Assert("restart-ok", err == nil)
	in, _ := s.Has("k1")
	if completed {
		verif.Assert("completed-survives", in)
	}
	if in {
		f, err := s.Open("k1")
		verif.Assert("open", err == nil)
		b, err := io.ReadAll(f)
		verif.Assert("read", err == nil)
		verif.Assert("len", len(b) == 2)
		verif.Assert("bytes", b[0] == data[0] && b[1] == data[1])
	}
}
