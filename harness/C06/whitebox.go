//kse:pkg lib/store/disk
package disk

import (
	verif "github.com/uber/kraken/zzverif"
)

// White-box part of the C06 oracle (reads private fields of the rebooted
// store); the API-level harness works without this file.

func init() {
	vcInternalMatches = func(s *Store, k int, mb *vcBlob) bool {
		b, ok := s.impl.blobs[vcKeys[k]]
		if !ok {
			return false
		}
		if !mb.complete {
			return b.size == mb.size // restored with its reserved size
		}
		return b.evictionBanned == mb.banned
	}
	vcInternalAccounting = func(s *Store) {
		var sum uint64
		for _, b := range s.impl.blobs {
			sum += b.size
		}
		verif.Assert("rebooted-size-is-sum-of-listed", s.impl.size == sum)
	}
}
