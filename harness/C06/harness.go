//kse:pkg lib/store/disk
package disk

import (
	verif "github.com/uber/kraken/zzverif"
)

var vcAllOps = []int{vcCreate, vcMarkComplete, vcDelete, vcBan, vcUnban, vcSetMd, vcDelMd, vcOpen}

func vcChooseConfig() vcConfig {
	return vcConfig{reboot: verif.Choice("reboot_incomplete", 2) == 1, shard: verif.Choice("shard_length", 2)}
}

// vcMenuPrefix builds one of a fixed menu of pre-states: key 1 absent or
// complete (size 2), key 0 absent / incomplete / complete, with or without
// metadata and eviction ban.
func vcMenuPrefix() []vcOp {
	var p []vcOp
	if verif.Choice("key1_state", 2) == 1 {
		p = append(p, vcOp{code: vcCreate, k: 1, size: 2, data: verif.Bytes("data1", 2)}, vcOp{code: vcMarkComplete, k: 1})
	}
	st := verif.Choice("key0_state", 6)
	if st == 0 {
		return p
	}
	p = append(p, vcOp{code: vcCreate, k: 0, size: 1, data: verif.Bytes("data0", 1)})
	switch st {
	case 2:
		p = append(p, vcOp{code: vcSetMd, k: 0, val: true})
	case 3:
		p = append(p, vcOp{code: vcMarkComplete, k: 0})
	case 4:
		p = append(p, vcOp{code: vcSetMd, k: 0, val: true}, vcOp{code: vcMarkComplete, k: 0}, vcOp{code: vcBan, k: 0})
	case 5:
		p = append(p, vcOp{code: vcMarkComplete, k: 0}, vcOp{code: vcSetMd, k: 0, val: false})
	}
	return p
}

// VerifDiskCrashOneOp: from every state of the menu, every operation on either
// key with a crash before each of its file-system steps (and without crash),
// for both incomplete-blob settings and both layouts; then reopen and check.
func VerifDiskCrashOneOp() {
	cfg := vcChooseConfig()
	prefix := vcMenuPrefix()
	last := vcChooseOp(vcAllOps, 2)
	sc := vcExecute(cfg, prefix, last, false)
	sc.check()
}

// VerifDiskCrashDuringRestart: the crash happens inside the recovery itself
// (NewStore on an existing directory); a second recovery must still succeed and
// serve everything completed before.
func VerifDiskCrashDuringRestart() {
	cfg := vcChooseConfig()
	prefix := vcMenuPrefix()
	sc := vcExecute(cfg, prefix, vcOp{}, true)
	sc.check()
}

// VerifDiskCrashHistory: arbitrary crash-free prefix, then one operation with
// crash points (thorough tier: longer prefix).
func VerifDiskCrashHistory() {
	cfg := vcChooseConfig()
	n := verif.Bound("prefix_ops", 1, 2)
	var prefix []vcOp
	for i := 0; i < n; i++ {
		prefix = append(prefix, vcChooseOp(vcAllOps, 2))
	}
	last := vcChooseOp(vcAllOps, 2)
	sc := vcExecute(cfg, prefix, last, false)
	sc.check()
}

// vcRemoveOrder: Delete and eviction of blobs whose directory holds several
// files (data, ban flag, metadata, size), with a crash before every unlink and
// every order in which the directory entries may be removed.
func vcRemoveOrder() {
	vcSymbolicUnlinkOrder = true
	cfg := vcChooseConfig()
	var prefix []vcOp
	var last vcOp
	switch verif.Choice("scenario", 4) {
	case 0: // delete a complete blob with metadata
		prefix = []vcOp{{code: vcCreate, k: 0, size: 1, data: verif.Bytes("data0", 1)}, {code: vcMarkComplete, k: 0}, {code: vcSetMd, k: 0, val: true}}
		last = vcOp{code: vcDelete, k: 0}
	case 1: // delete a complete, banned blob
		prefix = []vcOp{{code: vcCreate, k: 0, size: 1, data: verif.Bytes("data0", 1)}, {code: vcMarkComplete, k: 0}, {code: vcBan, k: 0}}
		last = vcOp{code: vcDelete, k: 0}
	case 2: // evict a complete blob with metadata by creating another one
		prefix = []vcOp{{code: vcCreate, k: 0, size: 2, data: verif.Bytes("data0", 2)}, {code: vcMarkComplete, k: 0}, {code: vcSetMd, k: 0, val: false}}
		last = vcOp{code: vcCreate, k: 1, size: 2, data: verif.Bytes("data1", 2)}
	case 3: // delete an incomplete blob with metadata
		prefix = []vcOp{{code: vcCreate, k: 0, size: 1, data: verif.Bytes("data0", 1)}, {code: vcSetMd, k: 0, val: true}}
		last = vcOp{code: vcDelete, k: 0}
	}
	sc := vcExecute(cfg, prefix, last, false)
	sc.check()
}

// VerifDiskCrashRemoveOrder: see vcRemoveOrder.
func VerifDiskCrashRemoveOrder() { vcRemoveOrder() }

// VerifFindingCrashHalfRemovedBlobDir: FINDINGS.md F3. A crash inside the
// RemoveAll of a complete blob directory after the data file is unlinked and
// before the directory is empty leaves complete/<key>/ behind; recovery skips
// it, and the key can never be completed again (rename onto a non-empty
// directory fails).
func VerifFindingCrashHalfRemovedBlobDir() { vcRemoveOrder() }

// VerifFindingCrashLeavesIncompleteWithoutSize: FINDINGS.md F1/F2. With
// RebootIncompleteBlobs, a crash inside Create (data file created, _size
// missing or still empty) or inside Delete of an incomplete blob (_size
// unlinked, data still there) makes the next start fail (empty _size) or
// leaves a dropped blob whose data file blocks Create (O_EXCL) for ever.
func VerifFindingCrashLeavesIncompleteWithoutSize() {
	cfg := vcConfig{reboot: true, shard: verif.Choice("shard_length", 2)}
	var prefix []vcOp
	var last vcOp
	if verif.Choice("scenario", 2) == 0 {
		last = vcOp{code: vcCreate, k: 0, size: 1, data: verif.Bytes("data0", 1)}
	} else {
		prefix = []vcOp{{code: vcCreate, k: 0, size: 1, data: verif.Bytes("data0", 1)}}
		last = vcOp{code: vcDelete, k: 0}
	}
	sc := vcExecute(cfg, prefix, last, false)
	sc.check()
}
