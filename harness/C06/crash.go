//kse:pkg lib/store/disk
package disk

import (
	"io"
	"path/filepath"

	"github.com/uber-go/tally"
	"github.com/uber/kraken/lib/store/metadata"
	verif "github.com/uber/kraken/zzverif"
)

// ---------------------------------------------------------------------------
// Shadow model of what the caller of the store knows (completed calls only).

const vcCapacity = 3 // sizes are 1 or 2: a second blob of size 2 forces eviction

var vcKeys = []string{"aa11", "bb22"}

type vcBlob struct {
	present  bool
	complete bool
	banned   bool
	size     uint64
	data     []byte // bytes written (as many as reserved) or nil
	mdSet    bool
	mdVal    bool
}

type vcModel struct {
	blobs [2]vcBlob
	lru   []int
}

func (m *vcModel) clone() *vcModel {
	c := *m
	c.lru = append([]int{}, m.lru...)
	return &c
}

func (m *vcModel) reserved() uint64 {
	var r uint64
	for i := range m.blobs {
		if m.blobs[i].present {
			r += m.blobs[i].size
		}
	}
	return r
}

func (m *vcModel) lruRemove(k int) {
	for i, x := range m.lru {
		if x == k {
			m.lru = append(append([]int{}, m.lru[:i]...), m.lru[i+1:]...)
			return
		}
	}
}

// Operations. Every operation is applied to the model only when the model says
// it succeeds; the harness asserts that the store agrees (outside crashes).
const (
	vcCreate = iota // Create + Write(size bytes) + Close
	vcMarkComplete
	vcDelete
	vcBan
	vcUnban
	vcSetMd
	vcDelMd
	vcOpen // touch (changes LRU order only)
	vcNumOps
)

type vcOp struct {
	code int
	k    int
	size uint64
	data []byte
	val  bool
}

// apply returns whether the operation succeeds on the model and, for Create,
// which keys it evicts.
func (m *vcModel) apply(o vcOp) (ok bool, evicted []int) {
	b := &m.blobs[o.k]
	switch o.code {
	case vcCreate:
		if b.present {
			return false, nil
		}
		for m.reserved()+o.size > vcCapacity {
			if len(m.lru) == 0 {
				return false, evicted
			}
			e := m.lru[0]
			m.lru = m.lru[1:]
			m.blobs[e] = vcBlob{}
			evicted = append(evicted, e)
		}
		*b = vcBlob{present: true, size: o.size, data: o.data}
		return true, evicted
	case vcMarkComplete:
		if !b.present {
			return false, nil
		}
		if !b.complete {
			b.complete = true
			if !b.banned {
				m.lru = append(m.lru, o.k)
			}
		}
		return true, nil
	case vcDelete:
		if !b.present {
			return false, nil
		}
		m.lruRemove(o.k)
		*b = vcBlob{}
		return true, nil
	case vcBan:
		if !b.present {
			return false, nil
		}
		b.banned = true
		m.lruRemove(o.k)
		return true, nil
	case vcUnban:
		if !b.present {
			return false, nil
		}
		if b.banned && b.complete {
			m.lru = append(m.lru, o.k)
		}
		b.banned = false
		return true, nil
	case vcSetMd:
		if !b.present {
			return false, nil
		}
		b.mdSet, b.mdVal = true, o.val
		return true, nil
	case vcDelMd:
		if !b.present {
			return false, nil
		}
		b.mdSet = false
		return true, nil
	case vcOpen:
		if !b.present {
			return false, nil
		}
		for _, x := range m.lru {
			if x == o.k {
				m.lruRemove(o.k)
				m.lru = append(m.lru, o.k)
				break
			}
		}
		return true, nil
	}
	return false, nil
}

// run performs o on the real store and returns whether it succeeded.
func vcRun(s *Store, o vcOp) bool {
	key := vcKeys[o.k]
	switch o.code {
	case vcCreate:
		f, err := s.Create(key, o.size)
		if err != nil {
			return false
		}
		n, err := f.Write(o.data)
		verif.Assert("write-ok", err == nil && n == len(o.data))
		f.Close()
		return true
	case vcMarkComplete:
		return s.MarkComplete(key) == nil
	case vcDelete:
		return s.Delete(key) == nil
	case vcBan:
		return s.BanEviction(key) == nil
	case vcUnban:
		return s.UnbanEviction(key) == nil
	case vcSetMd:
		return s.SetMetadata(key, metadata.NewPersist(o.val)) == nil
	case vcDelMd:
		return s.DeleteMetadata(key, metadata.NewPersist(false).GetSuffix()) == nil
	case vcOpen:
		f, err := s.Open(key)
		if err != nil {
			return false
		}
		f.Close()
		return true
	}
	return false
}

// vcChooseOp draws the parameters of one operation (before any crash scope, so
// that a native crash replay reads the same values).
func vcChooseOp(codes []int, nkeys int) vcOp {
	o := vcOp{code: codes[verif.Choice("op", len(codes))]}
	if nkeys > 1 {
		o.k = verif.Choice("key", nkeys)
	}
	switch o.code {
	case vcCreate:
		o.size = uint64(1 + verif.Choice("size", 2))
		o.data = verif.Bytes("data", int(o.size)) // clients write exactly what they reserved
	case vcSetMd:
		o.val = verif.Choice("mdval", 2) == 1
	}
	return o
}

// vcSymbolicUnlinkOrder is set by harnesses that explore every order in which
// RemoveAll may unlink the files of a blob directory.
var vcSymbolicUnlinkOrder bool

type vcConfig struct {
	reboot bool
	shard  int
}

func vcNewStore(c vcConfig) (*Store, error) {
	return NewStore(&Config{
		CapacityBytes:         vcCapacity,
		RootDir:               filepath.Join(verif.TempDir(), "disk"),
		RebootIncompleteBlobs: c.reboot,
		ShardLength:           c.shard,
	}, tally.NoopScope)
}

// vcScenario: a crash-free prefix of operations brings the store to some
// state; then one more operation (or a restart) runs with a crash possible
// before each of its file-system steps; then the store is reopened and checked.
//
// Natively, a crash replay materialises the file system at the crash point, so
// the prefix is not run on the real store there (will_crash is tied to the
// outcome of CrashScope and therefore known up front in a replay).
type vcScenario struct {
	cfg      vcConfig
	pre      *vcModel // state known to the caller before the in-flight operation
	post     *vcModel // state if the in-flight operation completes
	inflight vcOp
	restart  bool  // the in-flight operation is a restart (NewStore) instead
	touched  []int // keys the in-flight operation may change (incl. evictions)
	crashed  bool
}

func vcExecute(cfg vcConfig, prefix []vcOp, last vcOp, restart bool) *vcScenario {
	sc := &vcScenario{cfg: cfg, inflight: last, restart: restart}
	willCrash := verif.Bool("will_crash")
	skipPrefix := !verif.Symbolic() && willCrash
	m := &vcModel{}
	var s *Store
	if !skipPrefix {
		var err error
		s, err = vcNewStore(cfg)
		verif.Assert("new-store-ok", err == nil)
	}
	for _, o := range prefix {
		ok, _ := m.apply(o)
		if !skipPrefix {
			verif.Assert("prefix-op-agrees-with-model", vcRun(s, o) == ok)
		}
	}
	sc.pre = m.clone()
	sc.post = m.clone()
	if !restart {
		_, ev := sc.post.apply(last)
		sc.touched = append([]int{last.k}, ev...)
	}
	postOK := true
	if !restart {
		postOK, _ = m.clone().apply(last)
	}
	ranOK := false
	if vcSymbolicUnlinkOrder {
		// directory listing order (and so RemoveAll's unlink order) is a decision
		verif.Option("map_order_symbolic", 1)
	}
	sc.crashed = verif.CrashScope(func() {
		if restart {
			_, err := vcNewStore(cfg)
			verif.Assert("restart-ok", err == nil)
			ranOK = err == nil
			return
		}
		ranOK = vcRun(s, last)
	})
	verif.Option("map_order_symbolic", 0)
	verif.Assume(willCrash == sc.crashed)
	if !sc.crashed {
		verif.Assert("last-op-agrees-with-model", ranOK == postOK)
	}
	verif.Cover("crashed", sc.crashed)
	verif.Cover("not-crashed", !sc.crashed)
	return sc
}

func (sc *vcScenario) isTouched(k int) bool {
	if !sc.crashed {
		return false
	}
	for _, x := range sc.touched {
		if x == k {
			return true
		}
	}
	return false
}

func vcHas(list []string, key string) bool {
	for _, x := range list {
		if x == key {
			return true
		}
	}
	return false
}

// vcInternalMatches, when set (whitebox.go), compares what the public API
// cannot show: the reserved size of a restored incomplete blob and the eviction
// ban flag. vcInternalAccounting checks size == sum of listed sizes.
var (
	vcInternalMatches    func(s *Store, k int, mb *vcBlob) bool
	vcInternalAccounting func(s *Store)
)

// vcMatches checks that key k, as served by s, matches the model blob mb
// (which is present).
func vcMatches(s *Store, k int, mb *vcBlob, reboot bool) bool {
	key := vcKeys[k]
	ok, _ := s.Has(key)
	if !mb.complete && !reboot {
		return !ok // incomplete blobs are dropped when so configured
	}
	_, isComplete := s.ScopeComplete().Has(key)
	if !ok || isComplete != mb.complete {
		return false
	}
	if vcInternalMatches != nil && !vcInternalMatches(s, k, mb) {
		return false
	}
	if !mb.complete {
		// "restored with their reserved size" (white-box): nothing more is
		// demanded of an incomplete blob.
		return true
	}
	f, err := s.Open(key)
	if err != nil {
		return false
	}
	got, err := io.ReadAll(f)
	f.Close()
	if err != nil || len(got) != len(mb.data) {
		return false
	}
	same := true
	for i := range got {
		same = verif.And(same, got[i] == mb.data[i])
	}
	var md metadata.Persist
	has, err := s.GetMetadata(key, &md)
	if err != nil || has != mb.mdSet {
		return false
	}
	if has {
		same = verif.And(same, md.Value == mb.mdVal)
	}
	return same
}

// check reopens the store on the same directory and states the property.
func (sc *vcScenario) check() {
	final := sc.post
	if sc.crashed {
		final = sc.pre
	}
	s, err := vcNewStore(sc.cfg)
	verif.Assert("reopen-succeeds", err == nil)
	if err != nil {
		return
	}
	complete := s.ScopeComplete().List()
	for k := range vcKeys {
		key := vcKeys[k]
		if sc.isTouched(k) {
			// The in-flight operation may or may not have taken effect, but
			// nothing that was never completed may be reported complete.
			if vcHas(complete, key) {
				verif.Assert("inflight-key-complete-only-if-it-was-or-was-becoming", sc.pre.blobs[k].complete || sc.post.blobs[k].complete)
			}
			pre, post := &sc.pre.blobs[k], &sc.post.blobs[k]
			atomicOp := sc.inflight.k == k && sc.inflight.code != vcDelete && sc.inflight.code != vcCreate
			if atomicOp && pre.present {
				// Ban/Unban/SetMetadata/DeleteMetadata/MarkComplete on a blob the
				// caller had: it is still there, in the old or the new state.
				okPre := vcMatches(s, k, pre, sc.cfg.reboot)
				okPost := vcMatches(s, k, post, sc.cfg.reboot)
				verif.Assert("inflight-update-leaves-old-or-new-state", verif.Or(okPre, okPost))
			}
			continue
		}
		mb := &final.blobs[k]
		if !mb.present {
			verif.Assert("absent-key-not-listed-complete", !vcHas(complete, key))
			continue
		}
		if mb.complete {
			verif.Assert("completed-blob-listed", vcHas(complete, key))
			verif.Assert("completed-blob-bytes-ban-metadata", vcMatches(s, k, mb, sc.cfg.reboot))
		} else {
			verif.Assert("incomplete-not-reported-complete", !vcHas(complete, key))
			verif.Assert("incomplete-restored-with-size-or-dropped-as-configured", vcMatches(s, k, mb, sc.cfg.reboot))
		}
	}
	// accounting of the rebooted store is consistent with what it lists
	if vcInternalAccounting != nil {
		vcInternalAccounting(s)
	}
	// the recovered store keeps working on what it recovered: on every blob
	// that is still there, metadata updates are read back exactly (whatever a
	// crashed update left lying around in the blob directory)
	for k := range vcKeys {
		key := vcKeys[k]
		if in, _ := s.Has(key); !in {
			continue
		}
		for _, v := range []bool{true, false, true} {
			verif.Assert("setmd-after-restart", s.SetMetadata(key, metadata.NewPersist(v)) == nil)
			var md metadata.Persist
			has, err := s.GetMetadata(key, &md)
			verif.Assert("getmd-after-restart", err == nil && has)
			if err == nil && has {
				verif.Assert("getmd-after-restart-value", md.Value == v)
			}
		}
	}
	// every key can be created and completed again
	for k := range vcKeys {
		key := vcKeys[k]
		if in, _ := s.Has(key); in {
			verif.Assert("delete-after-restart", s.Delete(key) == nil)
		}
	}
	for k := range vcKeys {
		key := vcKeys[k]
		f, err := s.Create(key, 1)
		verif.Assert("create-again", err == nil)
		if err != nil {
			continue
		}
		nb := verif.Bytes("again", 1)
		_, err = f.Write(nb)
		verif.Assert("write-again", err == nil)
		f.Close()
		verif.Assert("complete-again", s.MarkComplete(key) == nil)
		g, err := s.Open(key)
		verif.Assert("open-again", err == nil)
		if err == nil {
			got, _ := io.ReadAll(g)
			g.Close()
			verif.Assert("bytes-again", len(got) == 1 && got[0] == nb[0])
		}
	}
}
